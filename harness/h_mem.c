/* Correspondence harness for the buffer layer of connection.c (engine "mem"):
   calls the real static functions on a fabricated connection with a real pool. */
#include "MHD_config.h"
#include "connection.c"
#include "common/lp.h"

/* struct MemoryPool is opaque outside memorypool.c: mirror its layout (checked
   against sizeof through a probe below is not possible; the layout is part of the
   white-box contract and a mismatch shows up as a correspondence failure at `init`) */
struct MemoryPoolView { uint8_t *memory; size_t size; size_t pos; size_t end; bool is_mmap; };

static struct MHD_Daemon dmn;
static struct MHD_Connection con;
static size_t rb_base;
static int sending; /* phase of the connection state machine (see Mhd.Model.ConnMem.step) */

static void off (const char *name, const char *p)
{
  struct MemoryPoolView *pv = (struct MemoryPoolView *) con.pool;
  if (NULL == p) printf ("%s=null ", name); else printf ("%s=%zu ", name, (size_t) ((const uint8_t *) p - pv->memory));
}
static void st (void)
{
  struct MemoryPoolView *pv = (struct MemoryPoolView *) con.pool;
  off ("rb", con.read_buffer);
  printf ("rbs=%zu rbo=%zu ", con.read_buffer_size, con.read_buffer_offset);
  off ("wb", con.write_buffer);
  printf ("wbs=%zu wba=%zu wbn=%zu pos=%zu end=%zu", con.write_buffer_size, con.write_buffer_append_offset,
          con.write_buffer_send_offset, pv->pos, pv->end);
}


/* ---- composed engine (Mhd.ConnRead): a fabricated connection on a real pool, fed through the real
   get_request_line / switch_to_rq_headers_processing / get_req_headers / check_and_grow_read_buffer_space ---- */
static struct MHD_Daemon rdmn;
static struct MHD_Connection rcon;

/* daemon.c's static unescape_wrapper (the default unescape callback) */
static size_t h_unescape (void *cls, struct MHD_Connection *c, char *val)
{
  bool broken; (void) cls;
  if (0 <= c->daemon->client_discipline) return MHD_str_pct_decode_in_place_strict_ (val);
  return MHD_str_pct_decode_in_place_lenient_ (val, &broken);
}

static void cr_release (void)
{
  if (rcon.rp.response) { MHD_destroy_response (rcon.rp.response); rcon.rp.response = NULL; }
  if (rcon.pool) { MHD_pool_destroy (rcon.pool); rcon.pool = NULL; }
}

static int cr_reading (void)
{
  return MHD_CONNECTION_INIT == rcon.state || MHD_CONNECTION_REQ_LINE_RECEIVING == rcon.state
         || MHD_CONNECTION_REQ_HEADERS_RECEIVING == rcon.state || MHD_CONNECTION_BODY_RECEIVING == rcon.state
         || MHD_CONNECTION_FOOTERS_RECEIVING == rcon.state || MHD_CONNECTION_CONTINUE_SENDING == rcon.state;
}

/* scripted access handler: take pattern (bytes taken per call, indexed by the call number within the request);
   the final call (no upload data, not the first call) queues an empty reply */
static int cr_fill = -1;   /* byte written behind the fill level before every idle call (-1: leave the stale bytes) */
static size_t cr_pat[64]; static size_t cr_npat; static size_t cr_calls;   /* pattern entry (size_t) -1 = MHD_NO */
static char cr_first = 'c', cr_final = 'r';   /* first call: c go on / r early reply / n MHD_NO; final call: r reply / n MHD_NO */ static int cr_marker; static int cr_cookie_stop;
static enum MHD_Result cr_handler (void *cls, struct MHD_Connection *c, const char *url, const char *method, const char *version,
                                   const char *upload_data, size_t *upload_data_size, void **con_cls)
{
  (void) cls; (void) url; (void) method; (void) version; (void) upload_data;
  if (NULL == *con_cls)
  {
    *con_cls = &cr_marker; cr_calls = 1;
    if ('n' == cr_first) return MHD_NO;
    if ('c' == cr_first) return MHD_YES;
  }
  else if (0 != *upload_data_size)
  {
    size_t n = *upload_data_size, t = (0 == cr_npat) ? n : cr_pat[cr_calls % cr_npat];
    if ((size_t) -1 == t && 0 != cr_npat) return MHD_NO;
    if (t > n) t = n;
    *upload_data_size = n - t; cr_calls++;
    return MHD_YES;
  }
  else if ('n' == cr_final) return MHD_NO;
  {
    struct MHD_Response *r = MHD_create_response_from_buffer_static (0, "");
    enum MHD_Result q = MHD_queue_response (c, MHD_HTTP_OK, r);
    MHD_destroy_response (r);
    return q;
  }
}

/* the `while` loop of MHD_connection_handle_idle over the receiving states (each case as there), the reply taken
   as sent at once (connection_switch_from_recv_to_send, keepalive_possible, connection_reset), then
   MHD_connection_update_event_loop_info */
static void cr_idle (void)
{
  /* what lies behind read_buffer_offset has not been received: nothing the parsers decide may depend on it.
     The script runs every case with different fill bytes there and the outcomes must be the same. */
  if (cr_fill >= 0 && NULL != rcon.pool && NULL != rcon.read_buffer && rcon.read_buffer_size > rcon.read_buffer_offset
      && MHD_CONNECTION_CLOSED != rcon.state)
    memset (rcon.read_buffer + rcon.read_buffer_offset, cr_fill, rcon.read_buffer_size - rcon.read_buffer_offset);
  rcon.in_idle = true;   /* as MHD_connection_handle_idle does (MHD_queue_response must not re-enter it) */
  if (MHD_CONNECTION_CONTINUE_SENDING == rcon.state)   /* the interim reply is taken as written by now */
    rcon.continue_message_write_offset = MHD_STATICSTR_LEN_ (HTTP_100_CONTINUE);
  while (! cr_cookie_stop)
  {
    switch (rcon.state)
    {
    case MHD_CONNECTION_INIT:
    case MHD_CONNECTION_REQ_LINE_RECEIVING:
      if (get_request_line (&rcon)) continue;
      break;
    case MHD_CONNECTION_REQ_LINE_RECEIVED:
      switch_to_rq_headers_processing (&rcon);
      continue;
    case MHD_CONNECTION_REQ_HEADERS_RECEIVING:
      if (get_req_headers (&rcon, false)) continue;
      break;
    case MHD_CONNECTION_HEADERS_RECEIVED:
      if (NULL != MHD_lookup_connection_value (&rcon, MHD_HEADER_KIND, "Cookie")) { cr_cookie_stop = 1; break; }
      parse_connection_headers (&rcon);
      if (MHD_CONNECTION_HEADERS_RECEIVED != rcon.state) continue;
      rcon.state = MHD_CONNECTION_HEADERS_PROCESSED;
      continue;
    case MHD_CONNECTION_HEADERS_PROCESSED:
      call_connection_handler (&rcon);
      if (MHD_CONNECTION_HEADERS_PROCESSED != rcon.state) continue;
      if ( (NULL == rcon.rp.response) && need_100_continue (&rcon) && (0 == rcon.read_buffer_offset) )
      { rcon.state = MHD_CONNECTION_CONTINUE_SENDING; break; }
      if ( (NULL != rcon.rp.response) && (0 != rcon.rq.remaining_upload_size) )
      { rcon.rq.remaining_upload_size = 0; rcon.discard_request = true; }
      rcon.state = (0 == rcon.rq.remaining_upload_size) ? MHD_CONNECTION_FULL_REQ_RECEIVED : MHD_CONNECTION_BODY_RECEIVING;
      continue;
    case MHD_CONNECTION_CONTINUE_SENDING:
      if (rcon.continue_message_write_offset == MHD_STATICSTR_LEN_ (HTTP_100_CONTINUE))
      { rcon.state = MHD_CONNECTION_BODY_RECEIVING; continue; }
      break;
    case MHD_CONNECTION_START_REPLY:   /* a reply queued by the first handler call, taken as sent */
      connection_switch_from_recv_to_send (&rcon);
      rcon.keepalive = keepalive_possible (&rcon);
      connection_reset (&rcon, MHD_CONN_USE_KEEPALIVE == rcon.keepalive && ! rcon.read_closed && ! rcon.discard_request);
      continue;
    case MHD_CONNECTION_BODY_RECEIVING:
      if (0 != rcon.read_buffer_offset)
      {
        process_request_body (&rcon);
        if (MHD_CONNECTION_BODY_RECEIVING != rcon.state) continue;
      }
      if (0 == rcon.rq.remaining_upload_size) { rcon.state = MHD_CONNECTION_BODY_RECEIVED; continue; }
      break;
    case MHD_CONNECTION_BODY_RECEIVED:
      if (rcon.rq.have_chunked_upload)
      {
        rcon.rq.num_cr_sp_replaced = 0; rcon.rq.skipped_broken_lines = 0;
        reset_rq_header_processing_state (&rcon);
        rcon.state = MHD_CONNECTION_FOOTERS_RECEIVING;
      }
      else rcon.state = MHD_CONNECTION_FULL_REQ_RECEIVED;
      continue;
    case MHD_CONNECTION_FOOTERS_RECEIVING:
      if (get_req_headers (&rcon, true)) continue;
      break;
    case MHD_CONNECTION_FOOTERS_RECEIVED:
      rcon.state = MHD_CONNECTION_FULL_REQ_RECEIVED;
      continue;
    case MHD_CONNECTION_FULL_REQ_RECEIVED:
      call_connection_handler (&rcon);
      if (MHD_CONNECTION_FULL_REQ_RECEIVED != rcon.state) continue;
      if (NULL == rcon.rp.response) break;
      /* MHD_CONNECTION_START_REPLY … FULL_REPLY_SENT, the reply taken as sent */
      connection_switch_from_recv_to_send (&rcon);
      rcon.keepalive = keepalive_possible (&rcon);
      connection_reset (&rcon, MHD_CONN_USE_KEEPALIVE == rcon.keepalive && ! rcon.read_closed && ! rcon.discard_request);
      continue;
    default:
      break;
    }
    break;
  }
  if (cr_reading ())
    MHD_connection_update_event_loop_info (&rcon);
  rcon.in_idle = false;
}

static void cr_show (void)
{
  const char *ph = NULL;
  switch (rcon.state)
  {
  case MHD_CONNECTION_INIT: case MHD_CONNECTION_REQ_LINE_RECEIVING: ph = "line"; break;
  case MHD_CONNECTION_REQ_HEADERS_RECEIVING: ph = "hdrs"; break;
  case MHD_CONNECTION_HEADERS_RECEIVED: ph = "done"; break;
  case MHD_CONNECTION_BODY_RECEIVING: ph = "body"; break;
  case MHD_CONNECTION_CONTINUE_SENDING: ph = "c100"; break;
  case MHD_CONNECTION_FOOTERS_RECEIVING: ph = "foot"; break;
  default: break;
  }
  if (NULL != ph && NULL != rcon.pool)
  {
    struct MemoryPoolView *pv = (struct MemoryPoolView *) rcon.pool;
    size_t ne = 0; struct MHD_HTTP_Req_Header *h;
    if (MHD_CONNECTION_BODY_RECEIVING != rcon.state && MHD_CONNECTION_FOOTERS_RECEIVING != rcon.state
        && MHD_CONNECTION_CONTINUE_SENDING != rcon.state)
      for (h = rcon.rq.headers_received; NULL != h; h = h->next) ne++;
    printf ("ph=%s ", ph);
    if (NULL == rcon.read_buffer) printf ("rb=null "); else printf ("rb=%zu ", (size_t) ((uint8_t *) rcon.read_buffer - pv->memory));
    printf ("rbs=%zu rbo=%zu pos=%zu end=%zu ne=%zu sync=1 win=", rcon.read_buffer_size, rcon.read_buffer_offset, pv->pos, pv->end, ne);
    if (0 == rcon.read_buffer_offset) putchar ('-'); else lp_puthex (stdout, rcon.read_buffer, rcon.read_buffer_offset);
    if (MHD_CONNECTION_BODY_RECEIVING == rcon.state)
    {
      if (rcon.rq.have_chunked_upload) printf (" rem=x"); else printf (" rem=%llu", (unsigned long long) rcon.rq.remaining_upload_size);
      printf (" cur=%llu off=%llu ev=%d", (unsigned long long) rcon.rq.current_chunk_size, (unsigned long long) rcon.rq.current_chunk_offset,
              0 != (MHD_EVENT_LOOP_INFO_READ & rcon.event_loop_info));
    }
    putchar ('\n');
  }
  else if (MHD_CONNECTION_CLOSED == rcon.state || NULL == rcon.rp.response)
    puts ("ph=err code=0");
  else
    printf ("ph=err code=%u\n", rcon.rp.responseCode);
}

int main (void)
{
  struct lp_line l = {0};
  MHD_init_mem_pools_ ();
  while (lp_read (stdin, &l))
  {
    uint64_t a, b;
    const char *op = l.w[0];
    if (!strcmp (op, "init") && l.n == 3 && lp_u64 (l.w[1], &a) && lp_u64 (l.w[2], &b) && a >= 64 && a < ((uint64_t) 1 << 40) && b < ((uint64_t) 1 << 40))
    {
      struct MemoryPoolView *pv;
      if (con.pool) MHD_pool_destroy (con.pool);
      memset (&dmn, 0, sizeof(dmn)); memset (&con, 0, sizeof(con));
      dmn.pool_size = (size_t) a; dmn.pool_increment = (size_t) b;
      con.daemon = &dmn;
      con.pool = MHD_pool_create (dmn.pool_size);
      pv = (struct MemoryPoolView *) con.pool;
      memset (pv->memory, 0, pv->size);
      /* as MHD_connection_set_initial_state_ does */
      con.read_buffer = MHD_pool_allocate (con.pool, dmn.pool_size / 2, false);
      con.read_buffer_size = con.read_buffer ? dmn.pool_size / 2 : 0;
      rb_base = con.read_buffer ? (size_t) ((uint8_t *) con.read_buffer - pv->memory) : 0;
      sending = 0;
      printf ("ok "); st (); printf (" size=%zu\n", pv->size);
      continue;
    }
    if (!strcmp (op, "crinit") && (l.n >= 4 && l.n <= 6))
    { /* crinit <pool_size> <pool_increment> <client_discipline> [take pattern t0,t1,...] */
      char *endp; long lvl = strtol (l.w[3], &endp, 10);
      if (!(lp_u64 (l.w[1], &a) && lp_u64 (l.w[2], &b)) || a < 64 || a >= ((uint64_t) 1 << 40) || b >= ((uint64_t) 1 << 40)
          || *endp || lvl < -8 || lvl > 8) { puts ("bad-op"); continue; }
      cr_release ();
      memset (&rdmn, 0, sizeof(rdmn)); memset (&rcon, 0, sizeof(rcon));
      rdmn.pool_size = (size_t) a; rdmn.pool_increment = (size_t) b; rdmn.client_discipline = (int) lvl;
      rdmn.unescape_callback = &h_unescape; rdmn.default_handler = &cr_handler;
      cr_npat = 0; cr_calls = 0; cr_cookie_stop = 0; cr_first = 'c'; cr_final = 'r';
      if (5 <= l.n && strcmp (l.w[4], "-"))
      {
        char *q = l.w[4];
        while (*q && cr_npat < 64)
        {
          if ('n' == *q) { cr_pat[cr_npat++] = (size_t) -1; q++; }
          else cr_pat[cr_npat++] = (size_t) strtoull (q, &q, 10);
          if (',' == *q) q++; else break;
        }
      }
      if (6 == l.n) { cr_first = l.w[5][0]; cr_final = l.w[5][0] ? l.w[5][1] : 'r'; }
      rcon.daemon = &rdmn; rcon.socket_fd = MHD_INVALID_SOCKET; rcon.state = MHD_CONNECTION_INIT;
      rcon.pool = MHD_pool_create (rdmn.pool_size);
      memset (((struct MemoryPoolView *) rcon.pool)->memory, 0, ((struct MemoryPoolView *) rcon.pool)->size);
      MHD_connection_set_initial_state_ (&rcon);
      printf ("ok "); cr_show ();
      continue;
    }
    if (!strcmp (op, "crfill") && l.n == 2)
    { /* crfill <byte 0..255 | off> */
      if (!strcmp (l.w[1], "off")) cr_fill = -1;
      else if (lp_u64 (l.w[1], &a) && a < 256) cr_fill = (int) a;
      else { puts ("bad-op"); continue; }
      puts ("ok");
      continue;
    }
    if (!strcmp (op, "crfeed") && l.n == 2)
    { /* crfeed <hex>: as MHD_connection_handle_read + MHD_connection_handle_idle do, as long as the connection reads */
      size_t len = 0, done = 0; uint8_t *bytes = lp_unhex (l.w[1], &len);
      if (NULL == bytes || 0 == rdmn.pool_size) { free (bytes); puts ("bad-op"); continue; }
      {
        size_t fuel = len + 1;
        if (0 == len) { if (cr_reading ()) cr_idle (); }
        else
          while (fuel-- > 0 && done < len && cr_reading ())
          {
            if (0 != (MHD_EVENT_LOOP_INFO_READ & rcon.event_loop_info) && rcon.read_buffer_size > rcon.read_buffer_offset)
            {
              size_t k = rcon.read_buffer_size - rcon.read_buffer_offset;
              if (k > len - done) k = len - done;
              memcpy (rcon.read_buffer + rcon.read_buffer_offset, bytes + done, k);   /* inside the window: ASan checks it */
              rcon.read_buffer_offset += k; done += k;
            }
            cr_idle ();
          }
      }
      free (bytes);
      cr_show ();
      continue;
    }
    if (!strcmp (op, "nospace") && l.n == 9)
    { /* nospace <stage> <addSize> <addKind 0 other|1 host-unparsed|2 host-parsed> <optHdr> <hostValLen|-> <uri> <methodOther> <methodLen>
         white-box call of get_no_space_err_status_code on a fabricated connection */
      uint64_t stg, asz, akind, opt, uri, mo, ml, hv = 0; int have_hv = strcmp (l.w[5], "-");
      struct MHD_Connection cc; struct MHD_Daemon dd; struct MHD_HTTP_Req_Header hh;
      char *rbuf, *add = NULL, *meth; unsigned int code;
      if (!(lp_u64 (l.w[1], &stg) && lp_u64 (l.w[2], &asz) && lp_u64 (l.w[3], &akind) && lp_u64 (l.w[4], &opt)
            && (!have_hv || lp_u64 (l.w[5], &hv)) && lp_u64 (l.w[6], &uri) && lp_u64 (l.w[7], &mo) && lp_u64 (l.w[8], &ml))
          || asz > (1u << 20) || opt > (1u << 20) || ml > (1u << 20) || hv > (1u << 20)
          || (akind && asz < 5) || stg < MHD_PROC_RECV_HEADERS || stg > MHD_PROC_RECV_FOOTERS)
      { puts ("bad-op"); continue; }
      memset (&cc, 0, sizeof(cc)); memset (&dd, 0, sizeof(dd)); memset (&hh, 0, sizeof(hh));
      cc.daemon = &dd;
      rbuf = (char *) calloc (1, (size_t) (asz + opt + 16));
      meth = (char *) malloc ((size_t) ml + 1); memset (meth, 'M', (size_t) ml); meth[ml] = 0;
      cc.rq.method = meth; cc.rq.http_mthd = mo ? MHD_HTTP_MTHD_OTHER : MHD_HTTP_MTHD_GET;
      cc.rq.req_target_len = (size_t) uri;
      cc.read_buffer = rbuf;
      if (0 != asz)
      {
        add = rbuf; memset (add, 'x', (size_t) asz);
        if (akind) { memcpy (add, "Host", 4); add[4] = (2 == akind) ? 0 : ':'; }
        else memcpy (add, "X-Ot", asz < 4 ? (size_t) asz : 4);
      }
      if (1 == akind)
      { /* raw, unparsed line: it is exactly the content of the read buffer while headers are being received */
        cc.state = MHD_CONNECTION_REQ_HEADERS_RECEIVING; cc.read_buffer_offset = (size_t) asz;
        cc.rq.field_lines.start = rbuf + asz - (size_t) opt; /* only used for pointer arithmetic */
      }
      else
      { cc.state = MHD_CONNECTION_BODY_RECEIVING; cc.rq.field_lines.size = (size_t) opt; cc.read_buffer_offset = 0; }
      if (have_hv)
      {
        static char hname[] = "Host"; char *hval = (char *) malloc ((size_t) hv + 1); memset (hval, 'h', (size_t) hv); hval[hv] = 0;
        hh.header = hname; hh.header_size = 4; hh.value = hval; hh.value_size = (size_t) hv; hh.kind = MHD_HEADER_KIND;
        cc.rq.headers_received = &hh; cc.rq.headers_received_tail = &hh;
        code = get_no_space_err_status_code (&cc, (enum MHD_ProcRecvDataStage) stg, add, (size_t) asz);
        free (hval);
      }
      else
        code = get_no_space_err_status_code (&cc, (enum MHD_ProcRecvDataStage) stg, add, (size_t) asz);
      printf ("status=%u\n", code);
      free (rbuf); free (meth);
      continue;
    }
    if (NULL == con.pool) { puts ("bad-op"); continue; }
    {
      struct MemoryPoolView *pv = (struct MemoryPoolView *) con.pool;
      if (!strcmp (op, "grow") && l.n == 2 && lp_u64 (l.w[1], &a))
      {
        if (sending) { puts ("bad-op"); continue; }
        bool had = (NULL != con.read_buffer);
        bool r = try_grow_read_buffer (&con, a != 0);
        if (r && !had) rb_base = (size_t) ((uint8_t *) con.read_buffer - pv->memory);
        printf ("ret=%s ", r ? "true" : "false"); st (); putchar ('\n');
      }
      else if (!strcmp (op, "recv") && l.n == 2 && lp_u64 (l.w[1], &a))
      {
        if (sending || NULL == con.read_buffer || a > con.read_buffer_size - con.read_buffer_offset) { puts ("bad-op"); continue; }
        /* the receive step writes into the window: ASan checks it */
        memset (con.read_buffer + con.read_buffer_offset, 'r', (size_t) a);
        con.read_buffer_offset += (size_t) a;
        printf ("ok "); st (); putchar ('\n');
      }
      else if (!strcmp (op, "consume") && l.n == 2 && lp_u64 (l.w[1], &a))
      {
        if (sending || NULL == con.read_buffer || a > con.read_buffer_offset) { puts ("bad-op"); continue; }
        con.read_buffer += a; con.read_buffer_size -= (size_t) a; con.read_buffer_offset -= (size_t) a;
        printf ("ok "); st (); putchar ('\n');
      }
      else if (!strcmp (op, "shiftback") && l.n == 2 && lp_u64 (l.w[1], &a))
      {
        if (sending || NULL == con.read_buffer || rb_base + a > (size_t) ((uint8_t *) con.read_buffer - pv->memory)) { puts ("bad-op"); continue; }
        if (0 != con.read_buffer_offset) memmove (con.read_buffer - a, con.read_buffer, con.read_buffer_offset);
        con.read_buffer -= a; con.read_buffer_size += (size_t) a;
        printf ("ok "); st (); putchar ('\n');
      }
      else if (!strcmp (op, "bodydrop") && l.n == 2 && lp_u64 (l.w[1], &a))
      { /* the tail of process_request_body: the processed bytes leave the window front */
        if (sending || NULL == con.read_buffer || a > con.read_buffer_offset) { puts ("bad-op"); continue; }
        if (con.read_buffer_offset > a && 0 != a) memmove (con.read_buffer, con.read_buffer + a, con.read_buffer_offset - (size_t) a);
        con.read_buffer_offset -= (size_t) a;
        printf ("ok "); st (); putchar ('\n');
      }
      else if (!strcmp (op, "alloc") && l.n == 2 && lp_u64 (l.w[1], &a))
      {
        char *r = MHD_connection_alloc_memory_ (&con, (size_t) a);
        if (r && a > 0 && a < (1u << 30)) memset (r, 'a', (size_t) a);
        off ("ptr", r); st (); putchar ('\n');
      }
      else if (!strcmp (op, "shrinkread") && l.n == 1)
      { if (sending) { puts ("bad-op"); continue; } connection_shrink_read_buffer (&con); sending = 1; printf ("ok "); st (); putchar ('\n'); }
      else if (!strcmp (op, "maxwrite") && l.n == 1)
      {
        size_t n;
        if (!sending) { puts ("bad-op"); continue; }
        n = connection_maximize_write_buffer (&con);
        if (con.write_buffer && con.write_buffer_size) memset (con.write_buffer + con.write_buffer_append_offset, 'w', con.write_buffer_size - con.write_buffer_append_offset);
        printf ("n=%zu ", n); st (); putchar ('\n');
      }
      else if (!strcmp (op, "wappend") && l.n == 2 && lp_u64 (l.w[1], &a))
      {
        if (!sending || NULL == con.write_buffer || a > con.write_buffer_size - con.write_buffer_append_offset) { puts ("bad-op"); continue; }
        con.write_buffer_append_offset += (size_t) a; printf ("ok "); st (); putchar ('\n');
      }
      else if (!strcmp (op, "wsend") && l.n == 2 && lp_u64 (l.w[1], &a))
      {
        if (!sending || a > con.write_buffer_append_offset - con.write_buffer_send_offset) { puts ("bad-op"); continue; }
        con.write_buffer_send_offset += (size_t) a; printf ("ok "); st (); putchar ('\n');
      }
      else if (!strcmp (op, "reset") && l.n == 1)
      {
        if (!sending || con.write_buffer_send_offset != con.write_buffer_append_offset) { puts ("bad-op"); continue; }
        connection_reset (&con, true); sending = 0;
        rb_base = 0;
        if (con.read_buffer_size) memset (con.read_buffer + con.read_buffer_offset, 'z', con.read_buffer_size - con.read_buffer_offset);
        printf ("ok "); st (); putchar ('\n');
      }
      else if (!strcmp (op, "errrelease") && l.n == 1)
      {
        if (sending) { puts ("bad-op"); continue; }
        sending = 1;
        if (0 != con.read_buffer_size)
        { MHD_pool_deallocate (con.pool, con.read_buffer, con.read_buffer_size);
          con.read_buffer = NULL; con.read_buffer_size = 0; con.read_buffer_offset = 0; }
        printf ("ok "); st (); putchar ('\n');
      }
      else if (!strcmp (op, "errreset") && l.n == 1)
      {
        if (!sending) { puts ("bad-op"); continue; }
        con.write_buffer = NULL; con.write_buffer_size = 0; con.write_buffer_send_offset = 0; con.write_buffer_append_offset = 0;
        con.read_buffer = MHD_pool_reset (con.pool, NULL, 0, 0);
        con.read_buffer_size = 0; con.read_buffer_offset = 0; rb_base = 0;
        printf ("ok "); st (); putchar ('\n');
      }
      else puts ("bad-op");
    }
  }
  if (con.pool) MHD_pool_destroy (con.pool);
  cr_release ();
  free (l.buf);
  return 0;
}
