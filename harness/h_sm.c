/* Engine "sm" (C05): copy of h_daemon.c extended with white-box access to
 * struct MHD_Connection (state, rq.client_aware, suspended) after every round and
 * inside every callback, fault injection for calloc and epoll_ctl(ADD).
 *
 * Scripted in-process daemon harness (engines "conn" and "daemon").
 *
 * The real library objects are linked except mhd_mono_clock.c: the clock is
 * virtual (script op `tick`).  Connections are socketpairs handed to the
 * daemon with MHD_add_connection(); event-loop rounds are scripted.  Every
 * callback the library makes is logged as one line; after every round the
 * bytes each client received, EOF/reset, the timeout hint and the connection
 * count are logged.  See DESIGN.md Appendix F for the vocabulary.
 *
 * No address, fd number or Date value is ever printed.
 */
#include "MHD_config.h"
#include <microhttpd.h>
#include "internal.h"
#include <sys/epoll.h>
#include <dlfcn.h>
#include <sys/types.h>
#include <sys/socket.h>
#include <sys/select.h>
#include <netinet/in.h>
#include <arpa/inet.h>
#include <fcntl.h>
#include <unistd.h>
#include <errno.h>
#include <signal.h>
#include <pthread.h>
#include <stdarg.h>
#include "common/lp.h"

/* ---------------------------------------------------------------- clock */
static uint64_t vclock_ms = 1000000;
void MHD_monotonic_sec_counter_init (void) {}
void MHD_monotonic_sec_counter_finish (void) {}
time_t MHD_monotonic_sec_counter (void) { return (time_t) (vclock_ms / 1000); }
uint64_t MHD_monotonic_msec_counter (void) { return vclock_ms; }

/* ---------------------------------------------------------------- config */
static struct {
  char mode[16]; size_t mem, incr; int lvl; unsigned limit, perip, timeout;
  int upgrade, suspend, have_lvl; unsigned nonce_tbl; int no_urilog;
  int have_apc; unsigned apc_deny;   /* accept policy callback registered: rejects this client address */
} cfg = { "select", 0, 0, 0, 0, 0, 0, 0, 0, 0, 0, 0, 0, 0 };

static struct MHD_Daemon *d;

#define MAXC 16
#define MAXR 32
#define MAXRESP 32
#define MAXKV 64

struct beh {           /* behaviour for one request */
  int used;
  char f[16];          /* first call: c | r<rid> | no | s<k> */
  char l[64];          /* calls without upload data after the first one: r<rid> | no | s<k> | c, or a comma separated
                          list of these (one per such call, the last one repeats) */
  long take[8]; int ntake;    /* -1 = all */
  int ur_n, ur_rid;    /* reply at upload call n (or -1) */
  int us_n, us_k;      /* suspend at upload call n for k rounds */
};

struct snap { const char *p; size_t len; uint8_t *copy; };

struct req {           /* per-request application context */
  int c, r;
  int ncalls, nupload, nfinal;
  int replied, suspended_once_final, suspended_once_first;
  int interim_pending;      /* a 102 response was accepted: the handler is asked again once it has been sent */
  struct snap snaps[3 + 2 * MAXKV]; int nsnap;
  int upg_pending;
};

struct conn {
  int used, cfd, started, closed_seen, eof_seen, addr;
  int nreq;                 /* requests presented so far */
  struct MHD_Connection *mc;
  int resume_in;            /* rounds until auto-resume; -1 none */
  struct beh beh[MAXR];
  /* upgrade */
  struct MHD_UpgradeResponseHandle *urh; MHD_socket usock; int upgraded;
  int ctx_serial;
  struct req *cur;          /* request in progress (for replies queued outside the handler) */
};
static struct conn conns[MAXC];

/* ---------------------------------------------------------------- white box */
static void st_fields (struct MHD_Connection *mc)
{
  printf (" state=%d aware=%d susp=%d", (int) mc->state, (int) mc->rq.client_aware, (int) mc->suspended);
  if (getenv ("SM_DEBUG")) printf (" eli=%d rbo=%zu rbs=%zu swe=%d disc=%d ka=%d rdcl=%d", (int) mc->event_loop_info, mc->read_buffer_offset, mc->read_buffer_size, (int) mc->stop_with_error, (int) mc->discard_request, (int) mc->keepalive, (int) mc->read_closed);
}
static void dump_states (void)
{
  int c;
  for (c = 0; c < MAXC; c++)
    if (conns[c].used && conns[c].mc)
    { printf ("st c=%d", c); st_fields (conns[c].mc); putchar ('\n'); }
}

/* ---------------------------------------------------------------- fault injection */
static long calloc_fail_in = -1;    /* k-th next calloc() from the library fails (0 = next) */
static long epoll_add_fail_in = -1; /* k-th next epoll_ctl(EPOLL_CTL_ADD) fails */
void *__real_calloc (size_t n, size_t s);
void *__wrap_calloc (size_t n, size_t s)
{
  if (calloc_fail_in >= 0 && 0 == calloc_fail_in--) { errno = ENOMEM; return NULL; }
  return __real_calloc (n, s);
}
int epoll_ctl (int epfd, int op, int fd, struct epoll_event *event)
{
  static int (*real) (int, int, int, struct epoll_event *);
  if (!real) real = (int (*)(int, int, int, struct epoll_event *)) dlsym (RTLD_NEXT, "epoll_ctl");
  if (EPOLL_CTL_ADD == op && epoll_add_fail_in >= 0 && 0 == epoll_add_fail_in--) { errno = ENOSPC; return -1; }
  return real (epfd, op, fd, event);
}
/* the harness' own allocations never fail */
#define calloc(n, s) __real_calloc ((n), (s))

struct hdrspec { int kind; /* 0 add hdr, 1 add footer, 2 del hdr */ uint8_t *n, *v; };
struct resp {
  int used; char kind[16]; unsigned code; size_t size; unsigned flags;
  size_t cbmax; int cbnr; int cberr_at; /* content callback: max per call, not-ready count, error at pos (-1) */
  struct hdrspec h[16]; int nh;
};
static struct resp resps[MAXRESP];
static int freecb_count[MAXRESP];

static void out (const char *fmt, ...)
{
  va_list ap; va_start (ap, fmt); vprintf (fmt, ap); va_end (ap); putchar ('\n');
}

static void puthexs (const char *s, size_t n)
{ if (NULL == s) { putchar ('~'); return; } lp_puthex (stdout, s, n); }

static uint8_t pat (int rid, size_t off) { return (uint8_t) ('a' + ((size_t) rid * 7 + off) % 26); }

/* ---------------------------------------------------------------- responses */
struct cbctx { int rid; int calls; void *buf; };

static ssize_t content_cb (void *cls, uint64_t pos, char *buf, size_t max)
{
  struct cbctx *x = (struct cbctx *) cls;
  struct resp *r = &resps[x->rid];
  size_t n, i;
  x->calls++;
  if (x->calls <= r->cbnr) { out ("reader rid=%d pos=%" PRIu64 " -> 0", x->rid, pos); return 0; }
  if (r->cberr_at >= 0 && pos >= (uint64_t) r->cberr_at)
  { out ("reader rid=%d pos=%" PRIu64 " -> err", x->rid, pos); return MHD_CONTENT_READER_END_WITH_ERROR; }
  if (pos >= r->size) { out ("reader rid=%d pos=%" PRIu64 " -> eos", x->rid, pos); return MHD_CONTENT_READER_END_OF_STREAM; }
  n = r->size - (size_t) pos;
  if (n > max) n = max;
  if (r->cbmax && n > r->cbmax) n = r->cbmax;
  for (i = 0; i < n; i++) buf[i] = (char) pat (x->rid, (size_t) pos + i);
  out ("reader rid=%d pos=%" PRIu64 " -> %zu", x->rid, pos, n);
  return (ssize_t) n;
}
static void content_free (void *cls) { struct cbctx *x = (struct cbctx *) cls; out ("free-cb rid=%d", x->rid); freecb_count[x->rid]++; free (x); }
static void buf_free (void *cls) { struct cbctx *x = (struct cbctx *) cls; out ("free-cb rid=%d", x->rid); freecb_count[x->rid]++; free (x->buf); free (x); }

static int conn_index (struct MHD_Connection *mc);
static void upgrade_cb (void *cls, struct MHD_Connection *connection, void *req_cls,
                        const char *extra_in, size_t extra_in_size, MHD_socket sock,
                        struct MHD_UpgradeResponseHandle *urh)
{
  struct req *rq = (struct req *) req_cls;
  (void) cls; (void) connection;
  if (NULL == rq) { out ("upgrade c=%d r=? (no request context)", conn_index (connection)); return; }
  printf ("upgrade c=%d r=%d", rq->c, rq->r); st_fields (connection); printf (" extra="); puthexs (extra_in, extra_in_size); putchar ('\n');
  if (NULL == extra_in && 0 != extra_in_size)
    out ("protocol-error c=%d r=%d upgrade-handler-given-NULL-with-size-%zu", rq->c, rq->r, extra_in_size);
  conns[rq->c].urh = urh; conns[rq->c].usock = sock; conns[rq->c].upgraded = 1;
}

static struct MHD_Response *make_resp (int rid)
{
  struct resp *r = &resps[rid];
  struct MHD_Response *m = NULL;
  size_t i;
  if (!r->used) { /* default response */
    r->used = 1; strcpy (r->kind, "copy"); r->code = 200; r->size = 5; r->cberr_at = -1; }
  if (!strcmp (r->kind, "static") || !strcmp (r->kind, "copy") || !strcmp (r->kind, "freecb"))
  {
    char *b = (char *) malloc (r->size ? r->size : 1);
    for (i = 0; i < r->size; i++) b[i] = (char) pat (rid, i);
    if (!strcmp (r->kind, "copy")) { m = MHD_create_response_from_buffer_copy (r->size, b); free (b); }
    else if (!strcmp (r->kind, "freecb"))
    { /* buffer freed together with ctx: use with-free-callback-cls */
      struct cbctx *x = (struct cbctx *) calloc (1, sizeof(*x)); x->rid = rid; x->buf = b;
      m = MHD_create_response_from_buffer_with_free_callback_cls (r->size, b, &buf_free, x);
      if (NULL == m) { free (b); free (x); }
      /* note: b leaks by design of this tiny harness unless tracked */
      (void) b;
    }
    else { static char *keep[4096]; static int nkeep; if (nkeep < 4096) keep[nkeep++] = b;
           m = MHD_create_response_from_buffer_static (r->size, b); }
  }
  else if (!strcmp (r->kind, "empty")) m = MHD_create_response_empty (MHD_RF_NONE);
  else if (!strcmp (r->kind, "cb-known") || !strcmp (r->kind, "cb-unknown"))
  {
    struct cbctx *x = (struct cbctx *) calloc (1, sizeof(*x)); x->rid = rid;
    m = MHD_create_response_from_callback (!strcmp (r->kind, "cb-known") ? (uint64_t) r->size : MHD_SIZE_UNKNOWN,
                                           1024, &content_cb, x, &content_free);
  }
  else if (!strcmp (r->kind, "fd") || !strcmp (r->kind, "fdoff"))
  {
    char name[] = "/tmp/vhXXXXXX"; int fd = mkstemp (name); size_t off = !strcmp (r->kind, "fdoff") ? 3 : 0;
    unlink (name);
    for (i = 0; i < r->size + off; i++) { char ch = (i < off) ? '#' : (char) pat (rid, i - off); if (1 != write (fd, &ch, 1)) abort (); }
    m = off ? MHD_create_response_from_fd_at_offset64 (r->size, fd, off) : MHD_create_response_from_fd (r->size, fd);
  }
  else if (!strcmp (r->kind, "pipe"))
  {
    int p[2]; if (0 != pipe (p)) abort ();
    for (i = 0; i < r->size; i++) { char ch = (char) pat (rid, i); if (1 != write (p[1], &ch, 1)) abort (); }
    close (p[1]);
    m = MHD_create_response_from_pipe (p[0]);
  }
  else if (!strcmp (r->kind, "iovec"))
  {
    struct MHD_IoVec iov[3]; static char *keep[4096]; static int nkeep;
    char *b = (char *) malloc (r->size ? r->size : 1); size_t a = r->size / 3, c2 = r->size / 3;
    for (i = 0; i < r->size; i++) b[i] = (char) pat (rid, i);
    if (nkeep < 4096) keep[nkeep++] = b;
    iov[0].iov_base = b; iov[0].iov_len = a; iov[1].iov_base = b + a; iov[1].iov_len = c2;
    iov[2].iov_base = b + a + c2; iov[2].iov_len = r->size - a - c2;
    m = MHD_create_response_from_iovec (iov, 3, NULL, NULL);
  }
  else if (!strcmp (r->kind, "upgrade")) m = MHD_create_response_for_upgrade (&upgrade_cb, NULL);
  if (NULL == m) return NULL;
  if (r->flags) MHD_set_response_options (m, (enum MHD_ResponseFlags) r->flags, MHD_RO_END);
  for (i = 0; i < (size_t) r->nh; i++)
  {
    enum MHD_Result q;
    if (0 == r->h[i].kind) q = MHD_add_response_header (m, (char *) r->h[i].n, (char *) r->h[i].v);
    else if (1 == r->h[i].kind) q = MHD_add_response_footer (m, (char *) r->h[i].n, (char *) r->h[i].v);
    else q = MHD_del_response_header (m, (char *) r->h[i].n, (char *) r->h[i].v);
    out ("resp-hdr rid=%d op=%d -> %d", rid, r->h[i].kind, (int) q);
  }
  return m;
}

/* ---------------------------------------------------------------- callbacks */
struct kvacc { int n; };
static enum MHD_Result kv_iter (void *cls, enum MHD_ValueKind kind, const char *key, size_t key_size,
                                const char *value, size_t value_size)
{
  struct kvacc *a = (struct kvacc *) cls;
  if (a->n++) putchar (',');
  printf ("%d:", (int) kind); puthexs (key, key_size); putchar ('='); puthexs (value, value_size);
  return MHD_YES;
}

struct snapacc { struct req *rq; };
static void add_snap (struct req *rq, const char *p, size_t len)
{
  if (NULL == p || rq->nsnap >= (int) (sizeof(rq->snaps) / sizeof(rq->snaps[0]))) return;
  rq->snaps[rq->nsnap].p = p; rq->snaps[rq->nsnap].len = len;
  rq->snaps[rq->nsnap].copy = (uint8_t *) malloc (len ? len : 1); memcpy (rq->snaps[rq->nsnap].copy, p, len);
  rq->nsnap++;
}
static enum MHD_Result snap_iter (void *cls, enum MHD_ValueKind kind, const char *key, size_t key_size,
                                  const char *value, size_t value_size)
{
  struct snapacc *a = (struct snapacc *) cls; (void) kind;
  add_snap (a->rq, key, key_size + 1); /* incl. terminating NUL */
  if (value) add_snap (a->rq, value, value_size + 1);
  return MHD_YES;
}
static void check_snaps (struct req *rq, const char *when)
{
  int i;
  for (i = 0; i < rq->nsnap; i++)
    if (0 != memcmp (rq->snaps[i].p, rq->snaps[i].copy, rq->snaps[i].len))
    { printf ("unstable c=%d r=%d at=%s idx=%d was=", rq->c, rq->r, when, i);
      lp_puthex (stdout, rq->snaps[i].copy, rq->snaps[i].len); printf (" now=");
      lp_puthex (stdout, rq->snaps[i].p, rq->snaps[i].len); putchar ('\n'); return; }
}
static void free_req (struct req *rq)
{ int i; for (i = 0; i < rq->nsnap; i++) free (rq->snaps[i].copy); free (rq); }

static int conn_index (struct MHD_Connection *mc)
{
  const union MHD_ConnectionInfo *ci = MHD_get_connection_info (mc, MHD_CONNECTION_INFO_SOCKET_CONTEXT);
  if (ci && ci->socket_context) return (int) (intptr_t) ci->socket_context - 1;
  return -1;
}

static void notify_conn (void *cls, struct MHD_Connection *mc, void **socket_context,
                         enum MHD_ConnectionNotificationCode toe)
{
  (void) cls;
  if (MHD_CONNECTION_NOTIFY_STARTED == toe)
  {
    int c = -1;
    const union MHD_ConnectionInfo *ci = MHD_get_connection_info (mc, MHD_CONNECTION_INFO_CLIENT_ADDRESS);
    if (ci && ci->client_addr && AF_INET == ci->client_addr->sa_family)
      c = (int) ntohs (((const struct sockaddr_in *) ci->client_addr)->sin_port) - 1000;
    if (c < 0 || c >= MAXC) c = -1;
    *socket_context = (void *) (intptr_t) (c + 1);
    if (c >= 0) { conns[c].mc = mc; conns[c].started = 1; }
    out ("conn-start c=%d", c);
  }
  else
  {
    int c = (int) (intptr_t) *socket_context - 1;
    if (NULL == *socket_context)
      out ("protocol-error c=-1 r=-1 close-notification-for-a-connection-that-was-never-announced");
    else if (c >= 0 && c < MAXC && 1 != conns[c].started)
      out ("protocol-error c=%d r=-1 close-notification-%s", c, 2 == conns[c].started ? "delivered-twice" : "without-start");
    out ("conn-close c=%d", c);
    if (c >= 0) { conns[c].mc = NULL; conns[c].started = 2; }
  }
}

static enum MHD_Result apc_cb (void *cls, const struct sockaddr *addr, socklen_t addrlen)
{
  unsigned a = 0;
  (void) cls; (void) addrlen;
  if (addr && AF_INET == addr->sa_family) a = (unsigned) (ntohl (((const struct sockaddr_in *) addr)->sin_addr.s_addr) - 0x0a000000u);
  out ("apc addr=%u -> %d", a, (int) (a != cfg.apc_deny));
  return (a != cfg.apc_deny) ? MHD_YES : MHD_NO;
}

static void *uri_log (void *cls, const char *uri, struct MHD_Connection *mc)
{
  (void) cls;
  printf ("uri-log c=%d uri=", conn_index (mc)); puthexs (uri, strlen (uri)); putchar ('\n');
  return NULL;
}

static void completed (void *cls, struct MHD_Connection *mc, void **req_cls, enum MHD_RequestTerminationCode toe)
{
  struct req *rq = (struct req *) *req_cls;
  (void) cls;
  if (NULL == rq) { out ("completed c=%d r=? code=%d ctx=null", conn_index (mc), (int) toe); return; }
  check_snaps (rq, "completed");
  printf ("completed c=%d r=%d code=%d", rq->c, rq->r, (int) toe); st_fields (mc); putchar ('\n');
  *req_cls = NULL;
  if (conns[rq->c].cur == rq) conns[rq->c].cur = NULL;
  free_req (rq);
}

static int parse_rid (const char *s) { return atoi (s + 1); }

static enum MHD_Result do_reply (struct MHD_Connection *mc, struct req *rq, int rid)
{
  struct MHD_Response *m = make_resp (rid);
  enum MHD_Result q;
  if (NULL == m) { out ("queued c=%d r=%d rid=%d -> no-response-object", rq->c, rq->r, rid); return MHD_NO; }
  q = MHD_queue_response (mc, resps[rid].code, m);
  out ("queued c=%d r=%d rid=%d code=%u -> %d", rq->c, rq->r, rid, resps[rid].code, (int) q);
  MHD_destroy_response (m);
  if (MHD_YES == q) { if (102 == resps[rid].code) rq->interim_pending = 1; else rq->replied = 1; }
  return q;
}

static void do_suspend (struct MHD_Connection *mc, struct req *rq, int k)
{
  MHD_suspend_connection (mc);
  conns[rq->c].resume_in = k;
  out ("suspend c=%d r=%d", rq->c, rq->r);
}

static enum MHD_Result handler_inner (void *cls, struct MHD_Connection *mc, const char *url, const char *method,
                                const char *version, const char *upload_data, size_t *upload_data_size,
                                void **req_cls)
{
  int c = conn_index (mc);
  struct req *rq = (struct req *) *req_cls;
  struct beh *b;
  struct kvacc acc = {0};
  const union MHD_ConnectionInfo *ci;
  const char *phase;
  static struct beh defbeh;
  (void) cls;
  if (c < 0) { out ("handler c=? (no socket context)"); return MHD_NO; }
  if (NULL == rq)
  {
    struct snapacc sa;
    rq = (struct req *) calloc (1, sizeof(*rq));
    rq->c = c; rq->r = conns[c].nreq++;
    *req_cls = rq;
    conns[c].cur = rq;
    phase = "first";
    add_snap (rq, url, strlen (url) + 1); add_snap (rq, method, strlen (method) + 1); add_snap (rq, version, strlen (version) + 1);
    sa.rq = rq;
    MHD_get_connection_values_n (mc, (enum MHD_ValueKind) (MHD_HEADER_KIND | MHD_COOKIE_KIND | MHD_GET_ARGUMENT_KIND), &snap_iter, &sa);
  }
  else phase = (0 != *upload_data_size) ? "upload" : "final";
  if (rq->replied) printf ("protocol-error c=%d r=%d handler-called-after-reply\n", rq->c, rq->r);
  if (rq->interim_pending) { rq->interim_pending = 0; out ("interim-done c=%d r=%d", rq->c, rq->r); }
  check_snaps (rq, phase);
  rq->ncalls++;
  b = (rq->r < MAXR && conns[c].beh[rq->r].used) ? &conns[c].beh[rq->r] : &defbeh;
  if (!defbeh.used) { defbeh.used = 1; strcpy (defbeh.f, "c"); strcpy (defbeh.l, "r0"); defbeh.ntake = 0; defbeh.ur_n = -1; defbeh.us_n = -1; }

  printf ("handler c=%d r=%d phase=%s", rq->c, rq->r, phase); st_fields (mc); printf (" method="); puthexs (method, strlen (method));
  printf (" url="); puthexs (url, strlen (url)); printf (" ver="); puthexs (version, strlen (version));
  printf (" up=");
  if (0 != *upload_data_size) lp_puthex (stdout, upload_data, *upload_data_size); else putchar ('-');
  if (rq->ncalls == 1)
  {
    printf (" kv=[");
    MHD_get_connection_values_n (mc, (enum MHD_ValueKind) (MHD_HEADER_KIND | MHD_COOKIE_KIND | MHD_GET_ARGUMENT_KIND | MHD_FOOTER_KIND),
                                 &kv_iter, &acc);
    putchar (']');
    ci = MHD_get_connection_info (mc, MHD_CONNECTION_INFO_REQUEST_HEADER_SIZE);
    printf (" hdrsize=%zu", ci ? ci->header_size : (size_t) 0);
  }
  else if (!strcmp (phase, "final"))
  { /* trailers become visible at the final call */
    printf (" footers=[");
    MHD_get_connection_values_n (mc, MHD_FOOTER_KIND, &kv_iter, &acc);
    putchar (']');
  }
  putchar ('\n');

  if (!strcmp (phase, "first"))
  {
    if (b->f[0] == 'r') return do_reply (mc, rq, parse_rid (b->f)) == MHD_YES ? MHD_YES : MHD_NO;
    if (!strcmp (b->f, "no")) return MHD_NO;
    if (b->f[0] == 's') { do_suspend (mc, rq, atoi (b->f + 1)); return MHD_YES; }
    return MHD_YES;
  }
  if (!strcmp (phase, "upload"))
  {
    int n = rq->nupload++;
    long t = (b->ntake > 0) ? b->take[n % b->ntake] : -1;
    size_t avail = *upload_data_size;
    size_t take = (t < 0 || (size_t) t > avail) ? avail : (size_t) t;
    *upload_data_size = avail - take;
    out ("took c=%d r=%d n=%zu of=%zu", rq->c, rq->r, take, avail);
    if (b->ur_n == n) return do_reply (mc, rq, b->ur_rid) == MHD_YES ? MHD_YES : MHD_NO;
    if (b->us_n == n) do_suspend (mc, rq, b->us_k);
    return MHD_YES;
  }
  /* final (any call without upload data after the first one) */
  {
    char act[16]; const char *s = b->l, *e; int k = rq->nfinal++, last;
    for (;;) { e = strchr (s, ','); if (NULL == e || 0 == k) break; s = e + 1; k--; }
    last = (NULL == e);
    { size_t n = e ? (size_t) (e - s) : strlen (s); if (n >= sizeof(act)) n = sizeof(act) - 1; memcpy (act, s, n); act[n] = 0; }
    if (act[0] == 's' && !(last && rq->suspended_once_final))
    { if (last) rq->suspended_once_final = 1; do_suspend (mc, rq, atoi (act + 1)); return MHD_YES; }
    if (!strcmp (act, "no")) return MHD_NO;
    if (!strcmp (act, "c")) return MHD_YES;   /* no reply in this call */
    if (act[0] == 'r') return do_reply (mc, rq, parse_rid (act)) == MHD_YES ? MHD_YES : MHD_NO;
    return do_reply (mc, rq, 0) == MHD_YES ? MHD_YES : MHD_NO;
  }
}

static enum MHD_Result handler (void *cls, struct MHD_Connection *mc, const char *url, const char *method,
                                const char *version, const char *upload_data, size_t *upload_data_size,
                                void **req_cls)
{
  enum MHD_Result q = handler_inner (cls, mc, url, method, version, upload_data, upload_data_size, req_cls);
  out ("ret c=%d v=%d", conn_index (mc), (int) q);
  return q;
}

/* ---------------------------------------------------------------- rounds */
static void drain_clients (void)
{
  int c;
  for (c = 0; c < MAXC; c++)
  {
    static uint8_t buf[1 << 16];
    if (!conns[c].used || conns[c].cfd < 0 || conns[c].eof_seen) continue;
    for (;;)
    {
      ssize_t r = recv (conns[c].cfd, buf, sizeof(buf), MSG_DONTWAIT);
      if (r > 0) { printf ("wire c=%d ", c); lp_puthex (stdout, buf, (size_t) r); putchar ('\n'); continue; }
      if (0 == r) { out ("eof c=%d", c); conns[c].eof_seen = 1; }
      else if (errno == ECONNRESET || errno == EPIPE) { out ("rst c=%d", c); conns[c].eof_seen = 1; }
      break;
    }
  }
}

static void report (void)
{
  uint64_t to;
  const union MHD_DaemonInfo *di;
  drain_clients ();
  if (NULL == d) return;
  if (MHD_YES == MHD_get_timeout64 (d, &to)) out ("hint %" PRIu64, to); else out ("hint none");
  di = MHD_get_daemon_info (d, MHD_DAEMON_INFO_CURRENT_CONNECTIONS);
  out ("conns %u", di ? di->num_connections : 0u);
  dump_states ();
}

static int threaded (void) { return NULL != strstr (cfg.mode, "-thr") || !strcmp (cfg.mode, "tpc"); }

static void one_round (void)
{
  int c;
  for (c = 0; c < MAXC; c++)
    if (conns[c].used && conns[c].resume_in >= 0 && conns[c].mc)
    {
      if (0 == conns[c].resume_in) { conns[c].resume_in = -1; out ("resume c=%d", c); MHD_resume_connection (conns[c].mc); }
      else conns[c].resume_in--;
    }
  if (threaded ()) { usleep (20000); return; }
  if (!strcmp (cfg.mode, "select"))
  {
    fd_set rs, ws, es; MHD_socket maxfd = 0; struct timeval tv = {0, 0};
    FD_ZERO (&rs); FD_ZERO (&ws); FD_ZERO (&es);
    if (MHD_YES != MHD_get_fdset2 (d, &rs, &ws, &es, &maxfd, FD_SETSIZE)) { out ("fdset-failed"); return; }
    select ((int) maxfd + 1, &rs, &ws, &es, &tv);
    MHD_run_from_select2 (d, &rs, &ws, &es, FD_SETSIZE);
  }
  else MHD_run_wait (d, 0);
}

/* ---------------------------------------------------------------- script */
static int kv (const char *w, const char *key, const char **val)
{ size_t n = strlen (key); if (!strncmp (w, key, n) && w[n] == '=') { *val = w + n + 1; return 1; } return 0; }

static void start_daemon (void)
{
  unsigned flags = MHD_USE_NO_LISTEN_SOCKET;
  struct MHD_OptionItem ops[16]; int n = 0;
  if (cfg.suspend) flags |= MHD_ALLOW_SUSPEND_RESUME;
  if (cfg.upgrade) flags |= MHD_ALLOW_UPGRADE;
  if (!strcmp (cfg.mode, "epoll")) flags |= MHD_USE_EPOLL;
  else if (!strcmp (cfg.mode, "poll-thr")) flags |= MHD_USE_POLL | MHD_USE_INTERNAL_POLLING_THREAD | MHD_USE_ITC;
  else if (!strcmp (cfg.mode, "select-thr")) flags |= MHD_USE_INTERNAL_POLLING_THREAD | MHD_USE_ITC;
  else if (!strcmp (cfg.mode, "epoll-thr")) flags |= MHD_USE_EPOLL | MHD_USE_INTERNAL_POLLING_THREAD | MHD_USE_ITC;
  else if (!strcmp (cfg.mode, "tpc")) flags |= MHD_USE_THREAD_PER_CONNECTION | MHD_USE_INTERNAL_POLLING_THREAD | MHD_USE_ITC;
  if (cfg.mem) { ops[n].option = MHD_OPTION_CONNECTION_MEMORY_LIMIT; ops[n].value = (intptr_t) cfg.mem; ops[n++].ptr_value = NULL; }
  if (cfg.incr) { ops[n].option = MHD_OPTION_CONNECTION_MEMORY_INCREMENT; ops[n].value = (intptr_t) cfg.incr; ops[n++].ptr_value = NULL; }
  if (cfg.have_lvl) { ops[n].option = MHD_OPTION_CLIENT_DISCIPLINE_LVL; ops[n].value = cfg.lvl; ops[n++].ptr_value = NULL; }
  if (cfg.limit) { ops[n].option = MHD_OPTION_CONNECTION_LIMIT; ops[n].value = cfg.limit; ops[n++].ptr_value = NULL; }
  if (cfg.perip) { ops[n].option = MHD_OPTION_PER_IP_CONNECTION_LIMIT; ops[n].value = cfg.perip; ops[n++].ptr_value = NULL; }
  if (cfg.timeout) { ops[n].option = MHD_OPTION_CONNECTION_TIMEOUT; ops[n].value = cfg.timeout; ops[n++].ptr_value = NULL; }
  if (cfg.nonce_tbl) { ops[n].option = MHD_OPTION_NONCE_NC_SIZE; ops[n].value = cfg.nonce_tbl; ops[n++].ptr_value = NULL; }
  ops[n].option = MHD_OPTION_NOTIFY_COMPLETED; ops[n].value = (intptr_t) &completed; ops[n++].ptr_value = NULL;
  ops[n].option = MHD_OPTION_NOTIFY_CONNECTION; ops[n].value = (intptr_t) &notify_conn; ops[n++].ptr_value = NULL;
  if (!cfg.no_urilog) { ops[n].option = MHD_OPTION_URI_LOG_CALLBACK; ops[n].value = (intptr_t) &uri_log; ops[n++].ptr_value = NULL; }
  ops[n].option = MHD_OPTION_END; ops[n].value = 0; ops[n++].ptr_value = NULL;
  d = MHD_start_daemon (flags, 0, cfg.have_apc ? &apc_cb : NULL, NULL, &handler, NULL, MHD_OPTION_ARRAY, ops, MHD_OPTION_END);
  out (d ? "started" : "start-failed");
}

static void elog (void *cls, const char *fmt, va_list ap) { (void) cls; (void) fmt; (void) ap; }

static void reset_all (void)
{
  int c, i, j;
  if (d) { MHD_stop_daemon (d); d = NULL; }
  for (c = 0; c < MAXC; c++) { if (conns[c].used && conns[c].cfd >= 0) close (conns[c].cfd); }
  memset (conns, 0, sizeof(conns));
  for (i = 0; i < MAXRESP; i++) { for (j = 0; j < resps[i].nh; j++) { free (resps[i].h[j].n); free (resps[i].h[j].v); } }
  memset (resps, 0, sizeof(resps));
  memset (freecb_count, 0, sizeof(freecb_count));
  memset (&cfg, 0, sizeof(cfg)); strcpy (cfg.mode, "select");
  vclock_ms = 1000000;
  calloc_fail_in = -1; epoll_add_fail_in = -1;
}

static uint8_t *unhexz (const char *s)
{ size_t n; uint8_t *b = lp_unhex (s, &n), *z; if (!b) return NULL; z = (uint8_t *) malloc (n + 1); memcpy (z, b, n); z[n] = 0; free (b); return z; }

int main (void)
{
  struct lp_line l = {0};
  signal (SIGPIPE, SIG_IGN);
  setvbuf (stdout, NULL, _IOFBF, 1 << 16);
  MHD_set_panic_func (NULL, NULL);
  (void) elog;
  while (lp_read (stdin, &l))
  {
    const char *v; int i; uint64_t a, b;
    const char *op = l.w[0];
    if (!strcmp (op, "case")) { reset_all (); out ("case %s", l.n > 1 ? l.w[1] : "-"); continue; }
    if (!strcmp (op, "cfg"))
    {
      for (i = 1; i < l.n; i++)
      {
        if (kv (l.w[i], "mode", &v)) { strncpy (cfg.mode, v, sizeof(cfg.mode) - 1); }
        else if (kv (l.w[i], "mem", &v)) cfg.mem = (size_t) atol (v);
        else if (kv (l.w[i], "incr", &v)) cfg.incr = (size_t) atol (v);
        else if (kv (l.w[i], "lvl", &v)) { cfg.lvl = atoi (v); cfg.have_lvl = 1; }
        else if (kv (l.w[i], "limit", &v)) cfg.limit = (unsigned) atoi (v);
        else if (kv (l.w[i], "perip", &v)) cfg.perip = (unsigned) atoi (v);
        else if (kv (l.w[i], "timeout", &v)) cfg.timeout = (unsigned) atoi (v);
        else if (kv (l.w[i], "upgrade", &v)) cfg.upgrade = atoi (v);
        else if (kv (l.w[i], "apc", &v)) { cfg.have_apc = 1; cfg.apc_deny = (unsigned) atoi (v); }
        else if (kv (l.w[i], "suspend", &v)) cfg.suspend = atoi (v);
        else if (kv (l.w[i], "nonce_tbl", &v)) cfg.nonce_tbl = (unsigned) atoi (v);
        else if (kv (l.w[i], "urilog", &v)) cfg.no_urilog = !atoi (v);
      }
      out ("ok"); continue;
    }
    if (!strcmp (op, "start")) { start_daemon (); continue; }
    if (!strcmp (op, "resp") && l.n >= 2)
    {
      int rid = atoi (l.w[1]); struct resp *r;
      if (rid < 0 || rid >= MAXRESP) { out ("bad-op"); continue; }
      r = &resps[rid]; memset (r, 0, sizeof(*r)); r->used = 1; strcpy (r->kind, "copy"); r->code = 200; r->size = 5; r->cberr_at = -1;
      for (i = 2; i < l.n; i++)
      {
        if (kv (l.w[i], "kind", &v)) strncpy (r->kind, v, sizeof(r->kind) - 1);
        else if (kv (l.w[i], "code", &v)) r->code = (unsigned) atoi (v);
        else if (kv (l.w[i], "size", &v)) r->size = (size_t) atol (v);
        else if (kv (l.w[i], "flags", &v)) r->flags = (unsigned) atoi (v);
        else if (kv (l.w[i], "cbmax", &v)) r->cbmax = (size_t) atol (v);
        else if (kv (l.w[i], "cbnr", &v)) r->cbnr = atoi (v);
        else if (kv (l.w[i], "cberr", &v)) r->cberr_at = atoi (v);
        else if ((kv (l.w[i], "h", &v) || kv (l.w[i], "f", &v) || kv (l.w[i], "d", &v)) && r->nh < 16)
        {
          char *colon = strchr ((char *) v, ':'); struct hdrspec *h = &r->h[r->nh];
          if (!colon) continue;
          *colon = 0;
          h->kind = (l.w[i][0] == 'h') ? 0 : (l.w[i][0] == 'f') ? 1 : 2;
          h->n = unhexz (v); h->v = unhexz (colon + 1);
          if (h->n && h->v) r->nh++;
        }
      }
      out ("ok"); continue;
    }
    if (!strcmp (op, "beh") && l.n >= 3)
    {
      int c = atoi (l.w[1]), r = atoi (l.w[2]); struct beh *bh;
      if (c < 0 || c >= MAXC || r < 0 || r >= MAXR) { out ("bad-op"); continue; }
      bh = &conns[c].beh[r]; memset (bh, 0, sizeof(*bh)); bh->used = 1; strcpy (bh->f, "c"); strcpy (bh->l, "r0"); bh->ur_n = -1; bh->us_n = -1;
      for (i = 3; i < l.n; i++)
      {
        if (kv (l.w[i], "f", &v)) strncpy (bh->f, v, sizeof(bh->f) - 1);
        else if (kv (l.w[i], "l", &v)) strncpy (bh->l, v, sizeof(bh->l) - 1);
        else if (kv (l.w[i], "u", &v))
        { char *s = (char *) v; bh->ntake = 0;
          while (*s && bh->ntake < 8) { bh->take[bh->ntake++] = !strncmp (s, "all", 3) ? -1 : atol (s); s = strchr (s, ','); if (!s) break; s++; } }
        else if (kv (l.w[i], "ur", &v)) { bh->ur_n = atoi (v); v = strchr (v, ':'); bh->ur_rid = v ? atoi (v + 2) : 0; }
        else if (kv (l.w[i], "us", &v)) { bh->us_n = atoi (v); v = strchr (v, ':'); bh->us_k = v ? atoi (v + 1) : 0; }
      }
      out ("ok"); continue;
    }
    if (NULL == d && strcmp (op, "tick")) { out ("bad-op"); continue; }
    if (!strcmp (op, "arrive") && l.n >= 3 && lp_u64 (l.w[1], &a) && lp_u64 (l.w[2], &b) && a < MAXC)
    {
      int sv[2]; struct sockaddr_in sa; enum MHD_Result q;
      if (conns[a].used) { out ("bad-op"); continue; }
      if (0 != socketpair (AF_UNIX, SOCK_STREAM | SOCK_NONBLOCK, 0, sv)) { out ("bad-op"); continue; }
      memset (&sa, 0, sizeof(sa)); sa.sin_family = AF_INET; sa.sin_port = htons ((uint16_t) (1000 + a));
      sa.sin_addr.s_addr = htonl (0x0a000000u + (uint32_t) b);
      { int saved = conns[a].resume_in; (void) saved; }
      conns[a].used = 1; conns[a].cfd = sv[0]; conns[a].addr = (int) b; conns[a].resume_in = -1;
      q = MHD_add_connection (d, sv[1], (struct sockaddr *) &sa, sizeof(sa));
      out ("arrive c=%d -> %d", (int) a, (int) q);
      if (MHD_YES != q) { /* MHD closed sv[1] itself */ }
      report ();
      continue;
    }
    if (!strcmp (op, "send") && l.n >= 3 && lp_u64 (l.w[1], &a) && a < MAXC && conns[a].used)
    {
      size_t n, offn = 0; uint8_t *bytes = lp_unhex (l.w[2], &n);
      if (!bytes) { out ("bad-op"); continue; }
      while (offn < n) { ssize_t r = send (conns[a].cfd, bytes + offn, n - offn, MSG_DONTWAIT | MSG_NOSIGNAL); if (r <= 0) break; offn += (size_t) r; }
      free (bytes);
      out ("sent c=%d n=%zu", (int) a, offn); continue;
    }
    if (!strcmp (op, "shutwr") && l.n >= 2 && lp_u64 (l.w[1], &a) && a < MAXC && conns[a].used)
    { shutdown (conns[a].cfd, SHUT_WR); out ("ok"); continue; }
    if (!strcmp (op, "cclose") && l.n >= 2 && lp_u64 (l.w[1], &a) && a < MAXC && conns[a].used)
    { drain_clients (); close (conns[a].cfd); conns[a].cfd = -1; conns[a].eof_seen = 1; out ("ok"); continue; }
    if (!strcmp (op, "settle") && l.n >= 2 && lp_u64 (l.w[1], &a))
    { int c;
      for (i = 0; i < (int) a; i++) { one_round (); drain_clients (); }
      report ();
      for (c = 0; c < MAXC; c++) if (conns[c].used && conns[c].mc)
      { printf ("sst c=%d", c); st_fields (conns[c].mc); putchar ('\n'); }
      continue; }
    if (!strcmp (op, "round")) { one_round (); report (); continue; }
    if (!strcmp (op, "rounds") && l.n >= 2 && lp_u64 (l.w[1], &a))
    { for (i = 0; i < (int) a; i++) { one_round (); drain_clients (); } report (); continue; }
    if (!strcmp (op, "tick") && l.n >= 2 && lp_u64 (l.w[1], &a)) { vclock_ms += a; out ("ok"); continue; }
    if (!strcmp (op, "tickback") && l.n >= 2 && lp_u64 (l.w[1], &a)) { vclock_ms -= a; out ("ok"); continue; }
    if (!strcmp (op, "set-timeout") && l.n >= 3 && lp_u64 (l.w[1], &a) && lp_u64 (l.w[2], &b) && a < MAXC && conns[a].mc)
    { out ("set-timeout c=%d -> %d", (int) a, (int) MHD_set_connection_option (conns[a].mc, MHD_CONNECTION_OPTION_TIMEOUT, (unsigned int) b)); continue; }
    if (!strcmp (op, "resume") && l.n >= 2 && lp_u64 (l.w[1], &a) && a < MAXC && conns[a].mc)
    { conns[a].resume_in = -1; out ("resume c=%d", (int) a); MHD_resume_connection (conns[a].mc); continue; }
    if (!strcmp (op, "up-close") && l.n >= 2 && lp_u64 (l.w[1], &a) && a < MAXC && conns[a].upgraded)
    { out ("up-close c=%d -> %d", (int) a, (int) MHD_upgrade_action (conns[a].urh, MHD_UPGRADE_ACTION_CLOSE)); conns[a].upgraded = 0; continue; }
    if (!strcmp (op, "up-recv") && l.n >= 2 && lp_u64 (l.w[1], &a) && a < MAXC && conns[a].upgraded)
    { static uint8_t ub[65536]; ssize_t r = recv (conns[a].usock, ub, sizeof(ub), MSG_DONTWAIT);
      printf ("up-data c=%d ", (int) a); if (r > 0) lp_puthex (stdout, ub, (size_t) r); else putchar ('-'); putchar ('\n'); continue; }
    if (!strcmp (op, "up-send") && l.n >= 3 && lp_u64 (l.w[1], &a) && a < MAXC && conns[a].upgraded)
    { size_t n; uint8_t *bytes = lp_unhex (l.w[2], &n); ssize_t r = bytes ? send (conns[a].usock, bytes, n, MSG_NOSIGNAL) : -1; free (bytes);
      out ("up-sent c=%d n=%zd", (int) a, r); continue; }
    if (!strcmp (op, "reply-out") && l.n >= 3 && lp_u64 (l.w[1], &a) && lp_u64 (l.w[2], &b) && a < MAXC && b < MAXRESP)
    { /* MHD_queue_response called by the application outside the access handler */
      struct MHD_Response *m; enum MHD_Result q;
      if (!conns[a].used || NULL == conns[a].mc) { out ("bad-op"); continue; }
      m = make_resp ((int) b);
      if (NULL == m) { out ("bad-op"); continue; }
      q = MHD_queue_response (conns[a].mc, resps[b].code, m);
      out ("queued c=%d r=%d rid=%d code=%u -> %d", (int) a, conns[a].nreq - 1, (int) b, resps[b].code, (int) q);
      MHD_destroy_response (m);
      if (MHD_YES == q && conns[a].used && conns[a].cur)
      { if (102 == resps[b].code) conns[a].cur->interim_pending = 1; else conns[a].cur->replied = 1; }
      continue; }
    if (!strcmp (op, "fail-calloc") && l.n >= 2) { calloc_fail_in = atol (l.w[1]); out ("ok"); continue; }
    if (!strcmp (op, "fail-epoll-add") && l.n >= 2) { epoll_add_fail_in = atol (l.w[1]); out ("ok"); continue; }
    if (!strcmp (op, "stop")) {
      /* the API forbids stopping with suspended connections: resume them first */
      int any = 0;
      for (i = 0; i < MAXC; i++)
        if (conns[i].used && conns[i].resume_in >= 0 && conns[i].mc)
        { conns[i].resume_in = -1; out ("resume c=%d", i); MHD_resume_connection (conns[i].mc); any = 1; }
      if (any && !threaded ()) { one_round (); one_round (); }
      else if (any) usleep (50000);
      drain_clients (); MHD_stop_daemon (d); d = NULL; drain_clients (); out ("stopped");
      for (i = 0; i < MAXRESP; i++) if (freecb_count[i]) out ("free-cb-total rid=%d n=%d", i, freecb_count[i]);
      continue; }
    out ("bad-op");
  }
  reset_all ();
  free (l.buf);
  fflush (stdout);   /* LeakSanitizer may _exit() before stdio is flushed */
  return 0;
}
