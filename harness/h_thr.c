/* C18 — threaded stress harness, built with ThreadSanitizer (NOT ASan).
 *
 *   h_thr <select|poll|epoll> <pool:0|1|4|tpc> <clients> <duration_ms> <seed> [features]
 *
 * features: comma list out of  listen,add,susp,auth,cb,post,opt,abort  (default: all), plus
 *           quiet = the clients finish and disconnect before MHD_stop_daemon() is called, so that only
 *           the inter-thread channel can wake the polling threads (a missing signal => watchdog)
 *           fd = one MHD_create_response_from_fd() object shared by all connections
 *           ips = client connections come from several 127.x.y.z addresses (per-IP accounting tree churn)
 *           stagger = (alone, thread-per-connection only) deterministic scenario instead of the load phase:
 *           3 connections whose handlers are blocked, MHD_stop_daemon(), the handlers are released at
 *           staggered times in each of the 6 orders (x 2 list layouts: with / without idle connections in
 *           between); every run must return, without library panic, with one closed notification each
 *
 * Real library objects, a daemon with an internal polling thread (or a worker pool,
 * or thread-per-connection), M client threads talking real HTTP over
 *   - socketpairs handed over with MHD_add_connection() from the client threads
 *     (= "connections added from other threads"), and
 *   - real loopback TCP connections accepted by the daemon,
 * one response object shared by all connections (static buffer) and one shared
 * callback response (content reader runs under response->mutex), handlers that
 * suspend the connection and a separate thread that resumes it, digest-auth checks
 * on a nonce table of 8 slots, POSTs, MHD_set_connection_option() from handlers,
 * a monitor thread polling MHD_get_daemon_info(), and finally MHD_stop_daemon()
 * while the clients are still sending, under a watchdog.
 *
 * stdout: one `result k=v ...` line.  Exit code 0 = run finished and the harness-side
 * accounting is consistent; 3 = watchdog (stop did not return); 4 = accounting error
 * (a connection / request not notified exactly once); 66 = TSan reports (TSAN_OPTIONS
 * exitcode).  ThreadSanitizer writes its reports to stderr; tools/props/C18.py classifies
 * them against the benign set.
 */
#include "MHD_config.h"
#include <stdio.h>
#include <stdlib.h>
#include <string.h>
#include <stdint.h>
#include <errno.h>
#include <signal.h>
#include <unistd.h>
#include <pthread.h>
#include <semaphore.h>
#include <poll.h>
#include <time.h>
#include <sys/socket.h>
#include <sys/types.h>
#include <netinet/in.h>
#include <arpa/inet.h>
#include <microhttpd.h>
#include <gnutls/gnutls.h>
#include <gnutls/crypto.h>

#define REALM "c18"
#define MAXCONN 400000
#define BODY_STATIC "shared static body: the quick brown fox jumps over the lazy dog\n"
#define CB_SIZE 20000

static struct MHD_Daemon *d;
static struct MHD_Response *resp_static;
static struct MHD_Response *resp_cb;
static struct MHD_Response *resp_post;
static struct MHD_Response *resp_fd;
#define FD_SIZE 70000
static uint16_t port;

static int f_listen = 1, f_add = 1, f_susp = 1, f_auth = 1, f_cb = 1, f_post = 1, f_opt = 1, f_abort = 1, f_quiet = 0,
           f_fd = 0, f_ips = 0;
static const char *g_mode = "?";
/* scenario "stagger" */
#define SG_MAX 8
static int sg_release[SG_MAX], sg_entered[SG_MAX];
static int sg_in_stop, sg_all_done;
static uint64_t sg_stop_t0;
static char sg_label[64] = "-";

/* harness state: atomics only, so that TSan reports concern the library */
static int stopping;        /* no new suspends */
static int no_add;          /* no new MHD_add_connection */
static int clients_quit;    /* clients leave their loops */
static int stop_begin, stop_done;
static pthread_rwlock_t add_lock = PTHREAD_RWLOCK_INITIALIZER;
static pthread_mutex_t q_lock = PTHREAD_MUTEX_INITIALIZER;

#define LD(x) __atomic_load_n (&(x), __ATOMIC_SEQ_CST)
#define ST(x,v) __atomic_store_n (&(x), (v), __ATOMIC_SEQ_CST)
#define INC(x) __atomic_add_fetch (&(x), 1, __ATOMIC_SEQ_CST)

static long n_req_ok, n_req_fail, n_conn_add, n_conn_tcp, n_add_fail, n_susp, n_resume, n_auth_chk, n_auth_req,
            n_cb_blocks, n_post, n_opt, n_abort, n_handler, n_completed, n_started_cb, n_closed_cb, n_double_close,
            n_double_complete, n_body_mismatch, n_late_add, n_fd, n_auth_ok_sent, n_ip_bind_fail;
static int ip_seen[4096];
static long auth_res[32];

/* deterministic scenarios run before the load phase */
static int pin_state;            /* 0 idle, 1 armed: the next NOTIFY_STARTED triggers the helper, 2 triggered */
static sem_t pin_go, pin_done;
static int pin_fd_b = -1;        /* client end of the connection added during the take-over */
static int pin_mod = 1, pin_target;
static int quiet_delay_ms;       /* the resumer waits this long before MHD_resume_connection() */
static int resp_tmo = 6000;
static int sc_pinadd = -1, sc_quiet = -1;   /* -1 not run, 0 ok, 1 failed */
static long sc_quiet_ms = -1, sc_pin_ms = -1;

static int conn_started[MAXCONN];   /* per connection slot: notifications seen */
static int conn_closed[MAXCONN];
static long conn_slots;

static uint64_t now_ms (void)
{
  struct timespec ts;
  clock_gettime (CLOCK_MONOTONIC, &ts);
  return (uint64_t) ts.tv_sec * 1000u + (uint64_t) ts.tv_nsec / 1000000u;
}

/* ------------------------------------------------------------ suspend queue */
struct rq { int kind; int phase; int completed; };
#define QMAX 4096
static struct MHD_Connection *q[QMAX];
static int q_n;

static void *resumer_main (void *arg)
{
  unsigned int seed = (unsigned int) (uintptr_t) arg;
  for (;;)
  {
    struct MHD_Connection *c = NULL;
    pthread_mutex_lock (&q_lock);
    if (q_n > 0) c = q[--q_n];
    pthread_mutex_unlock (&q_lock);
    if (NULL != c)
    {
      if (0 != LD (quiet_delay_ms)) usleep ((useconds_t) LD (quiet_delay_ms) * 1000u);
      if (0 == (rand_r (&seed) & 3)) usleep ((useconds_t) (rand_r (&seed) % 1500));
      MHD_resume_connection (c);
      INC (n_resume);
      continue;
    }
    if (LD (stop_begin)) break;
    usleep (200);
  }
  return NULL;
}

/* --------------------------------------------------------------- callbacks */
static ssize_t crc_cb (void *cls, uint64_t pos, char *buf, size_t max)
{
  size_t i, n = max;
  (void) cls;
  if (pos >= CB_SIZE) return MHD_CONTENT_READER_END_OF_STREAM;
  if (n > CB_SIZE - pos) n = (size_t) (CB_SIZE - pos);
  if (n > 3000) n = 3000;
  for (i = 0; i < n; i++) buf[i] = (char) ('a' + ((pos + i) % 23));
  INC (n_cb_blocks);
  return (ssize_t) n;
}

static void completed_cb (void *cls, struct MHD_Connection *c, void **con_cls, enum MHD_RequestTerminationCode toe)
{
  struct rq *r = (struct rq *) *con_cls;
  (void) cls; (void) c; (void) toe;
  if (NULL == r) return;
  if (0 != r->completed++) INC (n_double_complete);
  INC (n_completed);
  free (r);
  *con_cls = NULL;
}

static void conn_cb (void *cls, struct MHD_Connection *c, void **sock_ctx, enum MHD_ConnectionNotificationCode code)
{
  (void) cls; (void) c;
  if (MHD_CONNECTION_NOTIFY_STARTED == code)
  {
    long s;
    int armed = 1;
    if (__atomic_compare_exchange_n (&pin_state, &armed, 2, 0, __ATOMIC_SEQ_CST, __ATOMIC_SEQ_CST))
    {
      /* the daemon thread is inside new_connections_list_process_(): let another thread add a
       * connection right now and wait until MHD_add_connection() has returned */
      struct timespec ts;
      sem_post (&pin_go);
      clock_gettime (CLOCK_REALTIME, &ts);
      ts.tv_sec += 3;
      (void) sem_timedwait (&pin_done, &ts);
    }
    s = INC (conn_slots) - 1;
    if (s >= MAXCONN) { *sock_ctx = NULL; return; }
    conn_started[s] = 1;
    *sock_ctx = &conn_started[s];
    INC (n_started_cb);
  }
  else
  {
    INC (n_closed_cb);
    if (NULL != *sock_ctx)
    {
      long s = (int *) *sock_ctx - conn_started;
      if (1 != __atomic_add_fetch (&conn_closed[s], 1, __ATOMIC_SEQ_CST)) INC (n_double_close);
    }
  }
}

static enum MHD_Result handler (void *cls, struct MHD_Connection *c, const char *url, const char *method,
                                const char *version, const char *upload_data, size_t *upload_data_size, void **con_cls)
{
  struct rq *r = (struct rq *) *con_cls;
  (void) cls; (void) version; (void) upload_data;
  if (NULL == r)
  {
    r = (struct rq *) calloc (1, sizeof (*r));
    if (NULL == r) return MHD_NO;
    r->kind = url[1];
    if ('b' == r->kind) r->phase = (url[2] >= '0' && url[2] < '0' + SG_MAX) ? url[2] - '0' : 0;
    *con_cls = r;
    INC (n_handler);
    return MHD_YES;
  }
  if (0 != *upload_data_size)
  {
    *upload_data_size = 0;      /* consume */
    return MHD_YES;
  }
  switch (r->kind)
  {
  case 'u':
    if (0 == r->phase)
    {
      int did = 0;
      pthread_mutex_lock (&q_lock);
      if (! LD (stopping) && q_n < QMAX)
      {
        MHD_suspend_connection (c);
        q[q_n++] = c;
        did = 1;
      }
      pthread_mutex_unlock (&q_lock);
      r->phase = 1;
      if (did) { INC (n_susp); return MHD_YES; }
    }
    return MHD_queue_response (c, MHD_HTTP_OK, resp_static);
  case 'c':
    return MHD_queue_response (c, MHD_HTTP_OK, resp_cb);
  case 'f':
    INC (n_fd);
    return MHD_queue_response (c, MHD_HTTP_OK, (NULL != resp_fd) ? resp_fd : resp_static);
  case 'b':
    /* busy handler: stays in the application until the scenario releases it */
    ST (sg_entered[r->phase], 1);
    while (! LD (sg_release[r->phase])) usleep (300);
    return MHD_queue_response (c, MHD_HTTP_OK, resp_static);
  case 'a':      /* digest auth, MD5 (nonce of 44 characters) */
  case 'A':      /* digest auth, SHA-256 (nonce of 76 characters) on the SAME nonce table */
  {
    enum MHD_DigestAuthResult res;
    const enum MHD_DigestAuthMultiAlgo3 malgo = ('A' == r->kind) ? MHD_DIGEST_AUTH_MULT_ALGO3_SHA256 : MHD_DIGEST_AUTH_MULT_ALGO3_MD5;
    res = MHD_digest_auth_check3 (c, REALM, "user", "pass", 300, 0, MHD_DIGEST_AUTH_MULT_QOP_AUTH, malgo);
    INC (n_auth_chk);
    INC (auth_res[(res + 40) % 32]);
    if (MHD_DAUTH_OK == res)
      return MHD_queue_response (c, MHD_HTTP_OK, resp_static);
    INC (n_auth_req);
    {
      /* MHD_queue_auth_required_response3() adds the WWW-Authenticate header to the response object
       * it is given, so that object must be private to this reply (not the shared one) */
      struct MHD_Response *ar = MHD_create_response_from_buffer_static (strlen (BODY_STATIC), BODY_STATIC);
      enum MHD_Result qr;
      if (NULL == ar) return MHD_NO;
      qr = MHD_queue_auth_required_response3 (c, REALM, "opq", NULL, ar,
                                              (MHD_DAUTH_NONCE_STALE == res) ? MHD_YES : MHD_NO,
                                              MHD_DIGEST_AUTH_MULT_QOP_AUTH, malgo,
                                              MHD_NO, MHD_YES);
      MHD_destroy_response (ar);
      return qr;
    }
  }
  case 'p':
    INC (n_post);
    (void) method;
    return MHD_queue_response (c, MHD_HTTP_OK, resp_post);
  case 'o':
    INC (n_opt);
    (void) MHD_set_connection_option (c, MHD_CONNECTION_OPTION_TIMEOUT, (unsigned int) 7);
    return MHD_queue_response (c, MHD_HTTP_OK, resp_static);
  default:
    return MHD_queue_response (c, MHD_HTTP_OK, resp_static);
  }
}

/* ------------------------------------------------------------- digest client */
static long n_mixed_len, n_sha_chk_sent, n_md5_chk_sent;
static int last_nonce_len;     /* length of the nonce most recently handed out by the daemon (to any client) */

static void hashhex (int sha256, const char *str, char *out /* 65 */)
{
  unsigned char dg[32];
  int i, n = sha256 ? 32 : 16;
  if (0 != gnutls_hash_fast (sha256 ? GNUTLS_DIG_SHA256 : GNUTLS_DIG_MD5, str, strlen (str), dg)) memset (dg, 0, sizeof (dg));
  for (i = 0; i < n; i++) snprintf (out + 2 * i, 3, "%02x", dg[i]);
}

/* GET /a (MD5) or /A (SHA-256) with an Authorization header for `nonce`; right != 0: the correct response */
static int build_auth_req (char *req, size_t req_sz, char kind, const char *nonce, unsigned ncv, unsigned cn, int right)
{
  const int sha = ('A' == kind);
  char rsp[65];
  memset (rsp, '0', sizeof (rsp)); rsp[sha ? 64 : 32] = 0;
  if (right)
  {
    char ha1[65], ha2[65], tmp[640];
    hashhex (sha, "user:" REALM ":pass", ha1);
    hashhex (sha, sha ? "GET:/A" : "GET:/a", ha2);
    snprintf (tmp, sizeof (tmp), "%s:%s:%08x:c%u:auth:%s", ha1, nonce, ncv, cn, ha2);
    hashhex (sha, tmp, rsp);
  }
  /* a short (MD5) nonce presented while the daemon's most recent nonce is a long (SHA-256) one: with a
   * one-slot table the slot now holds the longer nonce (mixed-length slot collision) */
  if (strlen (nonce) < (size_t) LD (last_nonce_len)) INC (n_mixed_len);
  if (sha) INC (n_sha_chk_sent); else INC (n_md5_chk_sent);
  return snprintf (req, req_sz,
                   "GET /%c HTTP/1.1\r\nHost: h\r\nAuthorization: Digest username=\"user\", realm=\"" REALM "\", "
                   "nonce=\"%s\", uri=\"/%c\", qop=auth, nc=%08x, cnonce=\"c%u\", algorithm=%s, "
                   "response=\"%s\", opaque=\"opq\"\r\n\r\n",
                   kind, nonce, kind, ncv, cn, sha ? "SHA-256" : "MD5", rsp);
}

/* ----------------------------------------------------------------- clients */
struct cl { int id; unsigned int seed; };

static int wait_fd (int fd, short ev, int ms)
{
  struct pollfd p;
  p.fd = fd; p.events = ev; p.revents = 0;
  return poll (&p, 1, ms);
}

static int send_all (int fd, const char *b, size_t n)
{
  size_t off = 0;
  while (off < n)
  {
    ssize_t r = send (fd, b + off, n - off, MSG_NOSIGNAL);
    if (r > 0) { off += (size_t) r; continue; }
    if (r < 0 && (EAGAIN == errno || EWOULDBLOCK == errno)) { if (wait_fd (fd, POLLOUT, 3000) <= 0) return -1; continue; }
    if (r < 0 && EINTR == errno) continue;
    return -1;
  }
  return 0;
}

/* reads one response; returns status code (>0), fills nonce if a WWW-Authenticate header carries one; -1 on error */
static int read_response (int fd, char *nonce, size_t nonce_sz, long *body_len, unsigned *body_sum)
{
  const int TMO = resp_tmo;
  char hdr[8192];
  size_t n = 0, hend = 0;
  long clen = -1, got = 0;
  int code;
  char *p;
  for (;;)
  {
    ssize_t r;
    if (n >= sizeof (hdr) - 1) return -1;
    if (wait_fd (fd, POLLIN, TMO) <= 0) return -1;
    r = recv (fd, hdr + n, sizeof (hdr) - 1 - n, 0);
    if (r <= 0) { if (r < 0 && (EINTR == errno || EAGAIN == errno)) continue; return -1; }
    n += (size_t) r;
    hdr[n] = 0;
    p = strstr (hdr, "\r\n\r\n");
    if (NULL != p) { hend = (size_t) (p - hdr) + 4; break; }
  }
  if (0 != strncmp (hdr, "HTTP/1.1 ", 9)) return -1;
  code = atoi (hdr + 9);
  hdr[hend - 2] = 0;
  p = strcasestr (hdr, "\r\nContent-Length:");
  if (NULL != p) clen = atol (p + 17);
  if (NULL != nonce)
  {
    nonce[0] = 0;
    p = strstr (hdr, "nonce=\"");
    if (NULL != p)
    {
      char *e = strchr (p + 7, '"');
      if (NULL != e && (size_t) (e - (p + 7)) < nonce_sz) { memcpy (nonce, p + 7, (size_t) (e - (p + 7))); nonce[e - (p + 7)] = 0; }
    }
  }
  *body_sum = 0;
  if (clen < 0) return -1;          /* all replies of this harness have a known length */
  got = (long) (n - hend);
  for (size_t i = hend; i < n; i++) *body_sum += (unsigned char) hdr[i];
  while (got < clen)
  {
    char buf[4096];
    ssize_t r;
    size_t want = sizeof (buf);
    if ((long) want > clen - got) want = (size_t) (clen - got);
    if (wait_fd (fd, POLLIN, TMO) <= 0) return -1;
    r = recv (fd, buf, want, 0);
    if (r <= 0) { if (r < 0 && (EINTR == errno || EAGAIN == errno)) continue; return -1; }
    for (ssize_t i = 0; i < r; i++) *body_sum += (unsigned char) buf[i];
    got += r;
  }
  *body_len = clen;
  return code;
}

static unsigned expect_sum_static, expect_sum_cb, expect_sum_fd;

static uint32_t pick_ip (struct cl *me)
{
  unsigned b = 1u + (unsigned) (me->id % 4), c = 1u + (rand_r (&me->seed) % 8u);
  ST (ip_seen[(b << 4) | c], 1);
  return 0x7f000000u | (b << 8) | c;       /* 127.0.b.c */
}

static int open_conn (struct cl *me)
{
  int use_tcp = f_listen && (! f_add || (rand_r (&me->seed) & 1));
  if (! use_tcp && ! f_add) return -1;
  if (use_tcp)
  {
    struct sockaddr_in sa;
    int fd = socket (AF_INET, SOCK_STREAM, 0);
    if (fd < 0) return -1;
    if (f_ips)
    {
      memset (&sa, 0, sizeof (sa));
      sa.sin_family = AF_INET; sa.sin_port = 0; sa.sin_addr.s_addr = htonl (pick_ip (me));
      if (0 != bind (fd, (struct sockaddr *) &sa, sizeof (sa))) INC (n_ip_bind_fail);
    }
    memset (&sa, 0, sizeof (sa));
    sa.sin_family = AF_INET; sa.sin_port = htons (port); sa.sin_addr.s_addr = htonl (INADDR_LOOPBACK);
    if (0 != connect (fd, (struct sockaddr *) &sa, sizeof (sa))) { close (fd); return -1; }
    INC (n_conn_tcp);
    return fd;
  }
  else
  {
    int sv[2];
    struct sockaddr_in sa;
    enum MHD_Result ok = MHD_NO;
    if (0 != socketpair (AF_UNIX, SOCK_STREAM, 0, sv)) return -1;
    memset (&sa, 0, sizeof (sa));
    sa.sin_family = AF_INET; sa.sin_port = htons ((uint16_t) (1024 + me->id)); sa.sin_addr.s_addr = htonl (f_ips ? pick_ip (me) : 0x7f000001u + (unsigned) (me->id % 3));
    pthread_rwlock_rdlock (&add_lock);
    if (! LD (no_add))
      ok = MHD_add_connection (d, sv[0], (struct sockaddr *) &sa, sizeof (sa));   /* closes sv[0] on failure */
    else
    { close (sv[0]); INC (n_late_add); }
    pthread_rwlock_unlock (&add_lock);
    if (MHD_YES != ok) { close (sv[1]); INC (n_add_fail); return -1; }
    INC (n_conn_add);
    return sv[1];
  }
}

static void *client_main (void *arg)
{
  struct cl *me = (struct cl *) arg;
  char req[1024], nonce[256];
  while (! LD (clients_quit))
  {
    int fd = open_conn (me);
    int k, nreq;
    if (fd < 0) { usleep (1000); continue; }
    nreq = 1 + (int) (rand_r (&me->seed) % 5);
    for (k = 0; k < nreq && ! LD (clients_quit); k++)
    {
      static const char kinds[] = "ssucapofA";
      char kind = kinds[rand_r (&me->seed) % (sizeof (kinds) - 1)];
      long blen = 0; unsigned bsum = 0; int code;
      if ('u' == kind && ! f_susp) kind = 's';
      if ('c' == kind && ! f_cb) kind = 's';
      if (('a' == kind || 'A' == kind) && ! f_auth) kind = 's';
      if ('p' == kind && ! f_post) kind = 's';
      if ('o' == kind && ! f_opt) kind = 's';
      if ('f' == kind && ! f_fd) kind = 's';
      if ('p' == kind)
      {
        int bl = (int) (rand_r (&me->seed) % 300);
        int hl = snprintf (req, sizeof (req), "POST /p HTTP/1.1\r\nHost: h\r\nContent-Length: %d\r\n\r\n", bl);
        memset (req + hl, 'x', (size_t) bl);
        if (f_abort && 0 == rand_r (&me->seed) % 16) { (void) send_all (fd, req, (size_t) hl + (size_t) bl / 2); INC (n_abort); break; }
        if (0 != send_all (fd, req, (size_t) (hl + bl))) { INC (n_req_fail); break; }
      }
      else
      {
        int hl = snprintf (req, sizeof (req), "GET /%c HTTP/1.1\r\nHost: h\r\n\r\n", kind);
        if (f_abort && 0 == rand_r (&me->seed) % 24) { (void) send_all (fd, req, (size_t) hl / 2); INC (n_abort); break; }
        if (0 != send_all (fd, req, (size_t) hl)) { INC (n_req_fail); break; }
      }
      code = read_response (fd, nonce, sizeof (nonce), &blen, &bsum);
      if (code < 0) { INC (n_req_fail); break; }
      if (('a' == kind || 'A' == kind) && 0 != nonce[0]) ST (last_nonce_len, (int) strlen (nonce));
      if (('a' == kind || 'A' == kind) && 401 == code && 0 != nonce[0])
      {
        int tries;
        for (tries = 0; tries < 2 && 401 == code && 0 != nonce[0]; tries++)
        {
          unsigned ncv = (unsigned) (1 + tries + (rand_r (&me->seed) % 3)), cn = rand_r (&me->seed);
          int right = (0 != (rand_r (&me->seed) & 1));
          int hl = build_auth_req (req, sizeof (req), kind, nonce, ncv, cn, right);
          if (right) INC (n_auth_ok_sent);
          if (0 != send_all (fd, req, (size_t) hl)) { code = -1; break; }
          code = read_response (fd, nonce, sizeof (nonce), &blen, &bsum);
          if (code > 0 && 0 != nonce[0]) ST (last_nonce_len, (int) strlen (nonce));
        }
        if (code < 0) { INC (n_req_fail); break; }
      }
      else if (200 == code)
      {
        unsigned want = ('c' == kind) ? expect_sum_cb : (('p' == kind) ? 0u : (('f' == kind) ? expect_sum_fd : expect_sum_static));
        if ('p' != kind && bsum != want) INC (n_body_mismatch);
      }
      INC (n_req_ok);
    }
    close (fd);
  }
  return NULL;
}

static void *monitor_main (void *arg)
{
  (void) arg;
  while (! LD (no_add))
  {
    const union MHD_DaemonInfo *i;
    pthread_rwlock_rdlock (&add_lock);
    if (! LD (no_add))
    {
      i = MHD_get_daemon_info (d, MHD_DAEMON_INFO_CURRENT_CONNECTIONS);
      (void) i;
    }
    pthread_rwlock_unlock (&add_lock);
    usleep (3000);
  }
  return NULL;
}

static void *watchdog_main (void *arg)
{
  long limit = (long) (intptr_t) arg;
  uint64_t t0 = 0;
  for (;;)
  {
    if (LD (stop_done)) return NULL;
    if (LD (stop_begin))
    {
      if (0 == t0) t0 = now_ms ();
      if ((long) (now_ms () - t0) > limit)
      {
        printf ("result watchdog=1 stop_ms=%ld\n", (long) (now_ms () - t0));
        fflush (stdout);
        fprintf (stderr, "WATCHDOG: MHD_stop_daemon() did not return within %ld ms\n", limit);
        _exit (3);
      }
    }
    usleep (5000);
  }
}

static int add_pair (int want_mod_match)
{
  int sv[2];
  struct sockaddr_in sa;
  if (0 != socketpair (AF_UNIX, SOCK_STREAM, 0, sv)) return -1;
  if (want_mod_match)
  {
    /* thread pool: MHD_add_connection() picks the worker by `socket % pool size` */
    int extra[64], n = 0, k;
    while ((sv[0] % pin_mod) != pin_target && n < 64)
    {
      extra[n++] = sv[0];
      sv[0] = dup (sv[0]);
      if (sv[0] < 0) break;
    }
    for (k = 0; k < n; k++) close (extra[k]);
    if (sv[0] < 0) { close (sv[1]); return -1; }
  }
  else
    pin_target = sv[0] % pin_mod;
  memset (&sa, 0, sizeof (sa));
  sa.sin_family = AF_INET; sa.sin_port = htons (999); sa.sin_addr.s_addr = htonl (0x7f000001u);
  if (MHD_YES != MHD_add_connection (d, sv[0], (struct sockaddr *) &sa, sizeof (sa))) { close (sv[1]); return -1; }
  return sv[1];
}

static void *pin_helper_main (void *arg)
{
  (void) arg;
  sem_wait (&pin_go);
  pin_fd_b = add_pair (1);
  sem_post (&pin_done);
  return NULL;
}

static int one_get (int fd, char kind)
{
  char req[128], nonce[8];
  long blen = 0; unsigned bsum = 0;
  int hl = snprintf (req, sizeof (req), "GET /%c HTTP/1.1\r\nHost: h\r\n\r\n", kind);
  if (0 != send_all (fd, req, (size_t) hl)) return -1;
  (void) nonce;
  return read_response (fd, NULL, 0, &blen, &bsum);
}

/* C18: a connection added from another thread while the daemon thread is taking over an earlier
 * one must be served (flag `have_new` and the hand-over list change in one critical section) */
static void scenario_pinadd (void)
{
  pthread_t ht;
  int fa, code;
  uint64_t t0;
  sem_init (&pin_go, 0, 0); sem_init (&pin_done, 0, 0);
  pthread_create (&ht, NULL, &pin_helper_main, NULL);
  ST (pin_state, 1);
  fa = add_pair (0);
  if (fa < 0) { ST (pin_state, 0); sem_post (&pin_go); pthread_join (ht, NULL); return; }
  t0 = now_ms ();
  while (2 != LD (pin_state) && now_ms () - t0 < 3000) usleep (500);
  if (2 != LD (pin_state)) { ST (pin_state, 0); sem_post (&pin_go); }
  pthread_join (ht, NULL);
  resp_tmo = 2000;
  sc_pinadd = 0;
  t0 = now_ms ();
  code = one_get (fa, 's');
  if (200 != code) sc_pinadd = 1;
  if (pin_fd_b >= 0)
  {
    code = one_get (pin_fd_b, 's');
    if (200 != code) sc_pinadd = 1;
    close (pin_fd_b);
  }
  else sc_pinadd = 1;
  sc_pin_ms = (long) (now_ms () - t0);
  close (fa);
  resp_tmo = 6000;
}

/* C18: a connection suspended in the handler and resumed from another thread while nothing else
 * happens on the daemon must get its reply promptly (the resume must wake and re-run the loop) */
static int sc_quiet_retry;

static void scenario_quietresume (void)
{
  int attempt;
  pin_mod = 1;
  /* a second attempt tells a lost wake-up (deterministic: fails again) from a starved machine (reported as a retry) */
  for (attempt = 0; attempt < 2; attempt++)
  {
    int fd, code;
    uint64_t t0;
    fd = add_pair (0);
    if (fd < 0) return;
    usleep (100000);
    ST (quiet_delay_ms, 150);
    resp_tmo = 2000;
    t0 = now_ms ();
    code = one_get (fd, 'u');
    sc_quiet_ms = (long) (now_ms () - t0);
    sc_quiet = (200 == code) ? 0 : 1;
    ST (quiet_delay_ms, 0);
    resp_tmo = 6000;
    close (fd);
    if (0 == sc_quiet) break;
    if (0 == attempt) sc_quiet_retry = 1;
  }
}

/* C18: one daemon serves two digest algorithms on one nonce table of ONE slot: an MD5 nonce (44 characters) is
 * presented while the slot holds a SHA-256 nonce (76 characters).  Every request must be answered (401 stale for
 * the replaced nonce) and the daemon must stop: a path that leaves nnc_lock held blocks the next digest operation. */
static int sc_mix = -1, sc_mix_step = 0;

static int digest_get (int fd, char kind, const char *nonce_in, unsigned ncv, char *nonce_out, size_t nsz)
{
  char req[1024];
  long blen = 0; unsigned bsum = 0;
  int hl, code;
  if (NULL == nonce_in) hl = snprintf (req, sizeof (req), "GET /%c HTTP/1.1\r\nHost: h\r\n\r\n", kind);
  else hl = build_auth_req (req, sizeof (req), kind, nonce_in, ncv, 4711u + ncv, 1);
  if (0 != send_all (fd, req, (size_t) hl)) return -1;
  code = read_response (fd, nonce_out, nsz, &blen, &bsum);
  if (code > 0 && NULL != nonce_out && 0 != nonce_out[0]) ST (last_nonce_len, (int) strlen (nonce_out));
  return code;
}

static void scenario_mixnonce (void)
{
  char n1[256], n2[256], n3[256];
  int f1, f2;
  pin_mod = 1;
  f1 = add_pair (0); f2 = add_pair (0);
  if (f1 < 0 || f2 < 0) return;
  resp_tmo = 2500;
  sc_mix = 1;
  do
  {
    sc_mix_step = 1; if (401 != digest_get (f1, 'a', NULL, 0, n1, sizeof (n1)) || 44 != strlen (n1)) break;   /* MD5 challenge */
    sc_mix_step = 2; if (200 != digest_get (f1, 'a', n1, 1, n3, sizeof (n3))) break;                          /* nc=1: accepted */
    sc_mix_step = 3; if (401 != digest_get (f2, 'A', NULL, 0, n2, sizeof (n2)) || 76 != strlen (n2)) break;   /* SHA-256 nonce takes the slot */
    sc_mix_step = 4; if (401 != digest_get (f1, 'a', n1, 2, n3, sizeof (n3))) break;                          /* old MD5 nonce: 401 stale */
    sc_mix_step = 5; if (401 != digest_get (f2, 'a', NULL, 0, n3, sizeof (n3))) break;                        /* other worker: new challenge */
    sc_mix_step = 6; if (200 != digest_get (f2, 'a', n3, 1, n1, sizeof (n1))) break;                          /* ... and it works */
    sc_mix = 0;
  } while (0);
  resp_tmo = 6000;
  close (f1); close (f2);
}

/* ------------------------------------------------------------ library panic */
static void panic_cb (void *cls, const char *file, unsigned int line, const char *reason)
{
  char r[96];
  size_t i;
  (void) cls; (void) file;
  snprintf (r, sizeof (r), "%s", (NULL != reason) ? reason : "?");
  for (i = 0; r[i]; i++) if (' ' == r[i] || '\n' == r[i]) r[i] = '_';
  printf ("result panic=1 mode=%s panic_line=%u panic_reason=%s stagger=%s stop_begin=%d conn_started=%ld conn_closed=%ld\n",
          g_mode, line, r, sg_label, LD (stop_begin) | LD (sg_in_stop), n_started_cb, n_closed_cb);
  fflush (stdout);
  fprintf (stderr, "MHD PANIC line %u: %s (scenario %s)\n", line, (NULL != reason) ? reason : "?", sg_label);
  _exit (5);
}

/* ------------------------------------------- scenario: staggered thread exits during the stop */
struct sg_rel { int order[3]; int gap_ms; };

static void *sg_releaser_main (void *arg)
{
  struct sg_rel *r = (struct sg_rel *) arg;
  int j;
  while (! LD (sg_in_stop)) usleep (200);
  for (j = 0; j < 3; j++)
  {
    usleep ((useconds_t) r->gap_ms * 1000u);
    ST (sg_release[r->order[j]], 1);
  }
  return NULL;
}

static void *sg_watchdog_main (void *arg)
{
  long limit = (long) (intptr_t) arg;
  while (! LD (sg_all_done))
  {
    if (LD (sg_in_stop) && (long) (now_ms () - LD (sg_stop_t0)) > limit)
    {
      printf ("result watchdog=1 mode=%s stagger=%s stop_ms=%ld\n", g_mode, sg_label, (long) (now_ms () - LD (sg_stop_t0)));
      fflush (stdout);
      fprintf (stderr, "WATCHDOG: MHD_stop_daemon() did not return within %ld ms (scenario %s)\n", limit, sg_label);
      _exit (3);
    }
    usleep (5000);
  }
  return NULL;
}

/* one daemon, `nconn` connections added in list order (the first one ends up at the tail of the
 * connections DLL, where close_all_connections() starts its walk); the connections at busy[0..2] run a
 * handler that blocks until released, the others are idle.  Returns the stop time in ms, -1 = failed. */
static long stagger_one (unsigned int flags, struct MHD_OptionItem *ops, int nconn, const int busy[3],
                         const int order[3], int gap_ms, long *closed_ok)
{
  int fds[SG_MAX], i, k, bad = 0;
  long s0, s1, h0, c0;
  pthread_t rt;
  struct sg_rel rel;
  uint64_t t0;
  for (k = 0; k < SG_MAX; k++) { ST (sg_release[k], 0); ST (sg_entered[k], 0); }
  d = MHD_start_daemon (flags, 0, NULL, NULL, &handler, NULL, MHD_OPTION_ARRAY, ops, MHD_OPTION_END);
  if (NULL == d) return -1;
  pin_mod = 1;
  s0 = LD (conn_slots); h0 = LD (n_handler); c0 = LD (n_completed);
  for (i = 0; i < nconn; i++)
  {
    int which = -1;
    for (k = 0; k < 3; k++) if (busy[k] == i) which = k;
    fds[i] = add_pair (0);
    if (fds[i] < 0) { bad = 1; continue; }
    /* the connection is in the list when MHD_add_connection() returns (thread-per-connection mode) */
    if (which >= 0)
    {
      char req[64];
      int hl = snprintf (req, sizeof (req), "GET /b%d HTTP/1.1\r\nHost: h\r\n\r\n", which);
      uint64_t w0 = now_ms ();
      if (0 != send_all (fds[i], req, (size_t) hl)) bad = 1;
      while (! LD (sg_entered[which]) && now_ms () - w0 < 3000) usleep (300);
      if (! LD (sg_entered[which])) bad = 1;
    }
  }
  /* wait until every connection has been announced */
  t0 = now_ms ();
  while (LD (conn_slots) - s0 < nconn && now_ms () - t0 < 3000) usleep (300);
  s1 = LD (conn_slots);
  if (s1 - s0 != nconn) bad = 1;
  memcpy (rel.order, order, sizeof (rel.order)); rel.gap_ms = gap_ms;
  pthread_create (&rt, NULL, &sg_releaser_main, &rel);
  t0 = now_ms ();
  ST (sg_stop_t0, t0);
  ST (sg_in_stop, 1);
  MHD_stop_daemon (d);
  ST (sg_in_stop, 0);
  t0 = now_ms () - t0;
  for (k = 0; k < SG_MAX; k++) ST (sg_release[k], 1);
  pthread_join (rt, NULL);
  for (i = 0; i < nconn; i++) if (fds[i] >= 0) close (fds[i]);
  for (i = (int) s0; i < (int) s1 && i < MAXCONN; i++)
  {
    if (1 == LD (conn_closed[i])) (*closed_ok)++;
    else bad = 1;
  }
  if (LD (n_handler) - h0 != 3 || LD (n_completed) - c0 != 3) bad = 1;
  return bad ? -1 : (long) t0;
}

static int run_stagger (unsigned int flags, struct MHD_OptionItem *ops, long wd_ms)
{
  static const int perms[6][3] = { {0, 1, 2}, {0, 2, 1}, {1, 0, 2}, {1, 2, 0}, {2, 0, 1}, {2, 1, 0} };
  static const int lay_n[2] = { 3, 5 };
  static const int lay_busy[2][3] = { {0, 1, 2}, {0, 2, 4} };
  int p, l, runs = 0, nbad = 0;
  long closed_ok = 0, conns = 0, ms_max = 0, ms_min = 1000000;
  pthread_t wt;
  pthread_create (&wt, NULL, &sg_watchdog_main, (void *) (intptr_t) wd_ms);
  for (l = 0; l < 2; l++)
    for (p = 0; p < 6; p++)
    {
      long ms;
      snprintf (sg_label, sizeof (sg_label), "layout%d/order%d%d%d", l, perms[p][0], perms[p][1], perms[p][2]);
      ms = stagger_one (flags, ops, lay_n[l], lay_busy[l], perms[p], 70, &closed_ok);
      runs++; conns += lay_n[l];
      if (ms < 0) { nbad++; fprintf (stderr, "stagger %s: accounting inconsistent\n", sg_label); continue; }
      if (ms > ms_max) ms_max = ms;
      if (ms < ms_min) ms_min = ms;
    }
  ST (sg_all_done, 1);
  pthread_join (wt, NULL);
  if (0 != n_double_close || 0 != n_double_complete || n_started_cb != n_closed_cb) nbad++;
  printf ("result mode=%s pool=tpc scenario=stagger stagger_runs=%d stagger_bad=%d stagger_conns=%ld stagger_closed_once=%ld "
          "stagger_stop_ms_min=%ld stagger_stop_ms_max=%ld handler=%ld completed=%ld conn_started=%ld conn_closed=%ld "
          "double_close=%ld double_complete=%ld panic=0 bad=%d\n",
          g_mode, runs, nbad, conns, closed_ok, ms_min, ms_max, n_handler, n_completed, n_started_cb, n_closed_cb,
          n_double_close, n_double_complete, nbad ? 1 : 0);
  fflush (stdout);
  return nbad ? 4 : 0;
}

static int has (const char *list, const char *w)
{
  size_t l = strlen (w);
  const char *p = list;
  while (NULL != (p = strstr (p, w)))
  {
    if ((p == list || ',' == p[-1]) && (0 == p[l] || ',' == p[l])) return 1;
    p += l;
  }
  return 0;
}

int main (int argc, char **argv)
{
  const char *mode, *pool, *feat;
  int nclients, i, tpc = 0, npool = 0, bad = 0, nnc_size = 8;
  long duration, wd_ms;
  unsigned int seed, flags;
  pthread_t cth[64], rth, mth, wth;
  struct cl cls[64];
  struct MHD_OptionItem ops[16];
  int n = 0;
  uint64_t t0, t1;
  static const char rnd[] = "0123456789abcdef0123456789abcdef";
  struct sockaddr_in la;

  if (argc < 6) { fprintf (stderr, "usage: h_thr mode pool clients duration_ms seed [features]\n"); return 2; }
  mode = argv[1]; pool = argv[2]; nclients = atoi (argv[3]); duration = atol (argv[4]); seed = (unsigned int) atol (argv[5]);
  feat = argc > 6 ? argv[6] : "listen,add,susp,auth,cb,post,opt,abort";
  f_listen = has (feat, "listen"); f_add = has (feat, "add"); f_susp = has (feat, "susp"); f_auth = has (feat, "auth");
  f_cb = has (feat, "cb"); f_post = has (feat, "post"); f_opt = has (feat, "opt"); f_abort = has (feat, "abort");
  f_quiet = has (feat, "quiet"); f_fd = has (feat, "fd"); f_ips = has (feat, "ips");
  g_mode = mode;
  MHD_set_panic_func (&panic_cb, NULL);
  if (nclients < 1) nclients = 1;
  if (nclients > 64) nclients = 64;
  wd_ms = getenv ("H_THR_WATCHDOG_MS") ? atol (getenv ("H_THR_WATCHDOG_MS")) : 10000;
  signal (SIGPIPE, SIG_IGN);

  flags = MHD_USE_INTERNAL_POLLING_THREAD | MHD_USE_ITC | MHD_ALLOW_SUSPEND_RESUME;   /* no error log: stderr is for the sanitizer */
  if (0 == strcmp (pool, "tpc")) { tpc = 1; flags |= MHD_USE_THREAD_PER_CONNECTION; }
  else npool = atoi (pool);
  if (0 == strcmp (mode, "poll")) flags |= MHD_USE_POLL;
  else if (0 == strcmp (mode, "epoll")) flags |= MHD_USE_EPOLL;
  else if (0 != strcmp (mode, "select")) { fprintf (stderr, "bad mode\n"); return 2; }
  if (tpc && 0 == strcmp (mode, "epoll")) { printf ("result skipped=1 reason=epoll-with-thread-per-connection-unsupported\n"); return 0; }
  if (! f_listen) flags |= MHD_USE_NO_LISTEN_SOCKET;

  resp_static = MHD_create_response_from_buffer_static (strlen (BODY_STATIC), BODY_STATIC);
  resp_post = MHD_create_response_from_buffer_static (0, "");
  resp_cb = MHD_create_response_from_callback (CB_SIZE, 4096, &crc_cb, NULL, NULL);
  if (NULL == resp_static || NULL == resp_cb || NULL == resp_post) return 2;
  for (i = 0; BODY_STATIC[i]; i++) expect_sum_static += (unsigned char) BODY_STATIC[i];
  for (i = 0; i < CB_SIZE; i++) expect_sum_cb += (unsigned char) ('a' + (i % 23));
  if (f_fd)
  {
    /* one file-backed response object shared by all connections (pread()/sendfile() at per-connection offsets) */
    char tn[] = "/tmp/h_thr_fdXXXXXX";
    int tfd = mkstemp (tn);
    if (tfd >= 0)
    {
      char blk[1000];
      int b;
      unlink (tn);
      for (b = 0; b < FD_SIZE / 1000; b++)
      {
        for (i = 0; i < 1000; i++) { blk[i] = (char) ('A' + ((b * 7 + i) % 26)); expect_sum_fd += (unsigned char) blk[i]; }
        if (1000 != write (tfd, blk, 1000)) return 2;
      }
      resp_fd = MHD_create_response_from_fd (FD_SIZE, tfd);
      if (NULL == resp_fd) return 2;
    }
  }

  memset (&la, 0, sizeof (la));
  la.sin_family = AF_INET; la.sin_port = 0; la.sin_addr.s_addr = htonl (INADDR_LOOPBACK);
  ops[n].option = MHD_OPTION_NOTIFY_COMPLETED; ops[n].value = (intptr_t) &completed_cb; ops[n++].ptr_value = NULL;
  ops[n].option = MHD_OPTION_NOTIFY_CONNECTION; ops[n].value = (intptr_t) &conn_cb; ops[n++].ptr_value = NULL;
  /* 8 slots: almost every check meets a slot that another nonce has taken over (collisions); 64 slots: most checks
   * find their nonce and go through the nonce-counter bookkeeping */
  {
    static const int sizes[3] = { 1, 8, 64 };   /* 1: every nonce shares the slot (all collisions, MD5 and SHA-256 nonces mixed) */
    nnc_size = has (feat, "mixnonce") ? 1 : sizes[(seed + (unsigned) npool + (unsigned) strlen (mode)) % 3u];
  }
  ops[n].option = MHD_OPTION_NONCE_NC_SIZE; ops[n].value = nnc_size; ops[n++].ptr_value = NULL;
  ops[n].option = MHD_OPTION_DIGEST_AUTH_RANDOM; ops[n].value = 32; ops[n++].ptr_value = (void *) rnd;
  ops[n].option = MHD_OPTION_PER_IP_CONNECTION_LIMIT; ops[n].value = 10000; ops[n++].ptr_value = NULL;
  ops[n].option = MHD_OPTION_CONNECTION_LIMIT; ops[n].value = 512; ops[n++].ptr_value = NULL;
  ops[n].option = MHD_OPTION_CONNECTION_TIMEOUT; ops[n].value = 5; ops[n++].ptr_value = NULL;
  if (f_listen) { ops[n].option = MHD_OPTION_SOCK_ADDR; ops[n].value = 0; ops[n++].ptr_value = &la; }
  if (npool > 1) { ops[n].option = MHD_OPTION_THREAD_POOL_SIZE; ops[n].value = npool; ops[n++].ptr_value = NULL; }
  ops[n].option = MHD_OPTION_END; ops[n].value = 0; ops[n++].ptr_value = NULL;
  if (has (feat, "stagger"))
  {
    if (! tpc) { printf ("result skipped=1 reason=stagger-needs-thread-per-connection\n"); return 0; }
    return run_stagger (flags | MHD_USE_NO_LISTEN_SOCKET, ops, wd_ms);
  }
  d = MHD_start_daemon (flags, 0, NULL, NULL, &handler, NULL, MHD_OPTION_ARRAY, ops, MHD_OPTION_END);
  if (NULL == d) { printf ("result start_failed=1\n"); return 2; }
  if (f_listen)
  {
    const union MHD_DaemonInfo *di = MHD_get_daemon_info (d, MHD_DAEMON_INFO_BIND_PORT);
    port = (NULL != di) ? di->port : 0;
    if (0 == port) { printf ("result no_port=1\n"); return 2; }
  }

  pthread_create (&wth, NULL, &watchdog_main, (void *) (intptr_t) wd_ms);
  pthread_create (&rth, NULL, &resumer_main, (void *) (uintptr_t) (seed * 7919u + 1u));
  if (has (feat, "mixnonce"))
  {
    /* deterministic scenario alone, then the stop under the watchdog */
    scenario_mixnonce ();
    printf ("result mode=%s pool=%s scenario=mixnonce nnc_size=%d mixnonce=%d mixnonce_step=%d mixed_len=%ld\n", mode, pool, nnc_size,
            sc_mix, sc_mix_step, n_mixed_len);
    fflush (stdout);
    t0 = now_ms ();
    ST (stop_begin, 1);
    MHD_stop_daemon (d);
    t1 = now_ms ();
    ST (stop_done, 1);
    pthread_join (rth, NULL);
    pthread_join (wth, NULL);
    MHD_destroy_response (resp_static); MHD_destroy_response (resp_cb); MHD_destroy_response (resp_post);
    if (NULL != resp_fd) MHD_destroy_response (resp_fd);
    bad = (0 != sc_mix || n_started_cb != n_closed_cb || n_handler != n_completed || 0 != n_double_close) ? 1 : 0;
    printf ("result stop_ms=%ld auth_chk=%ld handler=%ld completed=%ld conn_started=%ld conn_closed=%ld bad=%d\n", (long) (t1 - t0),
            n_auth_chk, n_handler, n_completed, n_started_cb, n_closed_cb, bad);
    return bad ? 4 : 0;
  }
  if (f_add)
  {
    pin_mod = (npool > 1) ? npool : 1;
    scenario_pinadd ();
    if (f_susp) scenario_quietresume ();
    usleep (50000);
  }
  pthread_create (&mth, NULL, &monitor_main, NULL);
  for (i = 0; i < nclients; i++)
  {
    cls[i].id = i; cls[i].seed = seed * 2654435761u + (unsigned) i * 40503u + 17u;
    pthread_create (&cth[i], NULL, &client_main, &cls[i]);
  }

  t0 = now_ms ();
  while ((long) (now_ms () - t0) < duration) usleep (2000);

  if (f_quiet)
  {
    ST (clients_quit, 1);
    for (i = 0; i < nclients; i++) pthread_join (cth[i], NULL);
    usleep (300000);      /* let the daemon notice the disconnects and go to sleep */
  }
  /* quiesce what the API requires to be quiet before MHD_stop_daemon(): no suspended
   * connections (API contract), no concurrent MHD_add_connection / MHD_get_daemon_info on a
   * daemon that is being freed.  Network load on existing and new TCP connections continues. */
  pthread_mutex_lock (&q_lock);
  ST (stopping, 1);
  pthread_mutex_unlock (&q_lock);
  for (;;)
  {
    int left;
    pthread_mutex_lock (&q_lock);
    left = q_n;
    pthread_mutex_unlock (&q_lock);
    if (0 == left && LD (n_resume) == LD (n_susp)) break;
    usleep (200);
  }
  ST (no_add, 1);
  pthread_rwlock_wrlock (&add_lock);
  pthread_rwlock_unlock (&add_lock);

  t0 = now_ms ();
  ST (stop_begin, 1);
  MHD_stop_daemon (d);
  t1 = now_ms ();
  ST (stop_done, 1);
  ST (clients_quit, 1);
  if (! f_quiet)
    for (i = 0; i < nclients; i++) pthread_join (cth[i], NULL);
  pthread_join (rth, NULL);
  pthread_join (mth, NULL);
  pthread_join (wth, NULL);
  MHD_destroy_response (resp_static);
  MHD_destroy_response (resp_cb);
  MHD_destroy_response (resp_post);
  if (NULL != resp_fd) MHD_destroy_response (resp_fd);

  {
    long s, not_closed = 0, slots = conn_slots < MAXCONN ? conn_slots : MAXCONN, ips = 0;
    for (s = 0; s < 4096; s++) ips += ip_seen[s];
    for (s = 0; s < slots; s++) if (1 != conn_closed[s]) not_closed++;
    if (0 != not_closed || 0 != n_double_close || 0 != n_double_complete || n_handler != n_completed
        || n_started_cb != n_closed_cb || 0 != n_body_mismatch)
      bad = 1;
    printf ("result mode=%s pool=%s clients=%d seed=%u stop_ms=%ld req_ok=%ld req_fail=%ld conn_add=%ld conn_tcp=%ld add_fail=%ld "
            "susp=%ld resume=%ld auth_chk=%ld auth_req=%ld cb_blocks=%ld post=%ld opt=%ld abort=%ld handler=%ld completed=%ld "
            "conn_started=%ld conn_closed=%ld not_closed=%ld double_close=%ld double_complete=%ld body_mismatch=%ld "
            "pinadd=%d pinadd_ms=%ld quietresume=%d quietresume_ms=%ld quietresume_retry=%d fd=%ld auth_ok_sent=%ld auth_ok=%ld auth_stale=%ld "
            "auth_respwrong=%ld auth_noncewrong=%ld nnc_size=%d auth_md5_sent=%ld auth_sha256_sent=%ld mixed_len=%ld ip_addrs=%ld ip_bind_fail=%ld panic=0 bad=%d\n",
            mode, pool, nclients, seed, (long) (t1 - t0), n_req_ok, n_req_fail, n_conn_add, n_conn_tcp, n_add_fail,
            n_susp, n_resume, n_auth_chk, n_auth_req, n_cb_blocks, n_post, n_opt, n_abort, n_handler, n_completed,
            n_started_cb, n_closed_cb, not_closed, n_double_close, n_double_complete, n_body_mismatch,
            sc_pinadd, sc_pin_ms, sc_quiet, sc_quiet_ms, (sc_quiet_retry && 0 == sc_quiet) ? 1 : 0, n_fd, n_auth_ok_sent, auth_res[(MHD_DAUTH_OK + 40) % 32],
            auth_res[(MHD_DAUTH_NONCE_STALE + 40) % 32], auth_res[(MHD_DAUTH_RESPONSE_WRONG + 40) % 32],
            auth_res[(MHD_DAUTH_NONCE_WRONG + 40) % 32], nnc_size, n_md5_chk_sent, n_sha_chk_sent, n_mixed_len, ips, n_ip_bind_fail, bad);
    fflush (stdout);
  }
  return bad ? 4 : 0;
}
