/* Correspondence harness for src/microhttpd/memorypool.c (engine "pool").
   White-box include so that pos/end are observable; no source change needed. */
#include "MHD_config.h"
#include <stddef.h>
#include <stdint.h>
#ifdef MHD_ASAN_POISON_ACTIVE
/* Red-zone build (second variant of the pool).  The pool's poisoning calls go through checked
   wrappers: a range outside the arena is recorded (and reported as "fault unpoison-out-of-arena"
   by the operation) instead of letting ASan's own CHECK abort the whole batch. */
#include <sanitizer/asan_interface.h>
static uint8_t *h_arena; static size_t h_arena_size; static int h_oob;
static int h_in_arena (const volatile void *a, size_t n)
{
  const uint8_t *p = (const uint8_t *) a;
  if (NULL == h_arena) return 1;
  return p >= h_arena && n <= h_arena_size && (size_t) (p - h_arena) <= h_arena_size - n;
}
/* out of the arena: recorded; the part inside the arena is still (un)poisoned, so that the code's own
   accesses to the block it believes it has do not hide the report behind an ASan abort */
static void h_clip (const volatile void *a, size_t n, int poison)
{
  const uint8_t *p = (const uint8_t *) a;
  if (h_in_arena (a, n)) { if (poison) __asan_poison_memory_region (a, n); else __asan_unpoison_memory_region (a, n); return; }
  h_oob = 1;
  if (p >= h_arena && p < h_arena + h_arena_size)
  {
    size_t m = (size_t) (h_arena + h_arena_size - p);
    if (poison) __asan_poison_memory_region (a, m); else __asan_unpoison_memory_region (a, m);
  }
}
static void h_poison (const volatile void *a, size_t n) { h_clip (a, n, 1); }
static void h_unpoison (const volatile void *a, size_t n) { h_clip (a, n, 0); }
#undef ASAN_POISON_MEMORY_REGION
#undef ASAN_UNPOISON_MEMORY_REGION
#define ASAN_POISON_MEMORY_REGION(a,n) h_poison ((a), (n))
#define ASAN_UNPOISON_MEMORY_REGION(a,n) h_unpoison ((a), (n))
#endif
#include "memorypool.c"
#include "common/lp.h"
#ifdef MHD_ASAN_POISON_ACTIVE
#include <sys/wait.h>
#include <fcntl.h>
#endif

#define MAXB 256
struct blk { uint8_t *ptr; size_t len; int front; };
static struct blk live[MAXB];
static int nlive;
static struct MemoryPool *pool;
#ifdef MHD_ASAN_POISON_ACTIVE
static struct MemoryPool *pool_fwd (void) { return pool; }
#endif

#ifdef MHD_ASAN_POISON_ACTIVE
/* pos/end + the addressable (not user-poisoned) ranges of the arena, run-length coded */
static void st (void)
{
  size_t i, start = 0; int in = 0, any = 0;
  printf ("pos=%zu end=%zu adr=", pool->pos, pool->end);
  for (i = 0; i <= pool->size; i++)
  {
    int adr = (i < pool->size) && ! __asan_address_is_poisoned (pool->memory + i);
    if (adr && ! in) { start = i; in = 1; }
    else if (! adr && in) { printf ("%s%zu-%zu", any ? "," : "", start, i); any = 1; in = 0; }
  }
  if (! any) putchar ('-');
}
#define H_OOB_BEGIN() (h_oob = 0)
/* after such a fault the harness' own book-keeping of the blocks is void: nothing more on this pool */
static int h_dead;
#define H_OOB_CHECK() if (h_oob) { h_dead = 1; puts ("fault unpoison-out-of-arena"); continue; }
#else
static void st (void) { printf ("pos=%zu end=%zu", pool->pos, pool->end); }
#define H_OOB_BEGIN() ((void) 0)
#define H_OOB_CHECK() ((void) 0)
#endif
static void erase (int i) { memmove (&live[i], &live[i+1], (size_t) (nlive - i - 1) * sizeof(live[0])); nlive--; }
static void push (uint8_t *p, size_t len, int front) { live[nlive].ptr = p; live[nlive].len = len; live[nlive].front = front; nlive++; }
static void blkline (uint8_t *p, size_t len)
{ if (0 != ((uintptr_t) p) % ALIGN_SIZE) { puts ("fault misaligned-pointer"); return; }
  printf ("blk %zu %zu ", (size_t) (p - pool->memory), len); st (); putchar ('\n'); }

#ifdef MHD_ASAN_POISON_ACTIVE
/* A size within two alignment units of SIZE_MAX: the call is tried in a forked child first.  If the child is
   aborted by the sanitizer (the pool copying / poisoning outside its arena) the operation is reported as
   "fault … (call aborts)" and the batch goes on; otherwise the call is made for real. */
static struct MemoryPool *pool_fwd (void);
static int h_call_aborts (int kind, uint8_t *old, size_t old_size, size_t sz, int from_end)
{
  pid_t pid; int st = 0;
  if (sz <= SIZE_MAX - 2 * ALIGN_SIZE) return 0;
  fflush (stdout);
  pid = fork ();
  if (pid < 0) return 0;
  if (0 == pid)
  {
    size_t need; int fd = open ("/dev/null", O_WRONLY);
    struct MemoryPool *p = pool_fwd ();
    if (fd >= 0) { dup2 (fd, 1); dup2 (fd, 2); }
    if (0 == kind) (void) MHD_pool_allocate (p, sz, 0 != from_end);
    else if (1 == kind) (void) MHD_pool_try_alloc (p, sz, &need);
    else (void) MHD_pool_reallocate (p, old, old_size, sz);
    _exit (0);
  }
  if (pid != waitpid (pid, &st, 0)) return 0;
  return !(WIFEXITED (st) && 0 == WEXITSTATUS (st));
}
#define H_ABORTS(kind,old,osz,sz,fe) \
  if (h_call_aborts ((kind), (old), (osz), (sz), (fe))) { h_dead = 1; puts ("fault unpoison-out-of-arena (call aborts)"); continue; }
#else
#define H_ABORTS(kind,old,osz,sz,fe) ((void) 0)
#endif

int main (void)
{
  struct lp_line l = {0};
  MHD_init_mem_pools_ ();
  while (lp_read (stdin, &l))
  {
    uint64_t a, b, c;
    H_OOB_BEGIN ();
    if (l.n >= 2 && !strcmp (l.w[0], "model")) { puts ("ok model"); continue; }   /* which model the driver runs: not the code's business */
    if (l.n == 2 && !strcmp (l.w[0], "create") && lp_u64 (l.w[1], &a) && a > 0 && a < ((uint64_t) 1 << 62))
    {
      if (pool) MHD_pool_destroy (pool);
      nlive = 0;
#ifdef MHD_ASAN_POISON_ACTIVE
      h_arena = NULL; h_dead = 0;
#endif
      pool = MHD_pool_create ((size_t) a);
      if (!pool) { puts ("bad-op"); continue; }
      /* the model's arena starts zeroed; malloc'ed memory is indeterminate */
#ifdef MHD_ASAN_POISON_ACTIVE
      __asan_unpoison_memory_region (pool->memory, pool->size);
      memset (pool->memory, 0, pool->size);
      __asan_poison_memory_region (pool->memory, pool->size);
      h_arena = pool->memory; h_arena_size = pool->size;
#else
      memset (pool->memory, 0, pool->size);
#endif
      /* the model is created with the real (rounded) size */
      printf ("ok pos=%zu end=%zu size=%zu\n", pool->pos, pool->end, pool->size);
      continue;
    }
    if (!pool || nlive >= MAXB - 1) { puts ("bad-op"); continue; }
#ifdef MHD_ASAN_POISON_ACTIVE
    if (h_dead) { puts ("bad-op"); continue; }
#endif
    if (l.n == 3 && !strcmp (l.w[0], "alloc") && lp_u64 (l.w[1], &a) && lp_u64 (l.w[2], &b))
    {
      uint8_t *r;
      H_ABORTS (0, NULL, 0, (size_t) a, b != 0);
      r = MHD_pool_allocate (pool, (size_t) a, b != 0);
      H_OOB_CHECK ();
      if (r) { push (r, (size_t) a, b == 0); blkline (r, (size_t) a); }
      else { printf ("null "); st (); putchar ('\n'); }
    }
    else if (l.n == 2 && !strcmp (l.w[0], "try") && lp_u64 (l.w[1], &a))
    {
      size_t need = 12345;
      uint8_t *r;
      H_ABORTS (1, NULL, 0, (size_t) a, 0);
      r = MHD_pool_try_alloc (pool, (size_t) a, &need);
      H_OOB_CHECK ();
      if (r) { push (r, (size_t) a, 0); blkline (r, (size_t) a); }
      else { printf ("null need=%zu ", need); st (); putchar ('\n'); }
    }
    else if (l.n == 3 && !strcmp (l.w[0], "realloc") && lp_u64 (l.w[2], &b))
    {
      uint8_t *r;
      if (!strcmp (l.w[1], "-"))
      {
        H_ABORTS (2, NULL, 0, (size_t) b, 0);
        r = MHD_pool_reallocate (pool, NULL, 0, (size_t) b);
        H_OOB_CHECK ();
        if (r) { push (r, (size_t) b, 1); blkline (r, (size_t) b); }
        else { printf ("null "); st (); putchar ('\n'); }
      }
      else if (lp_u64 (l.w[1], &a) && a < (uint64_t) nlive && live[a].front)
      {
        H_ABORTS (2, live[a].ptr, live[a].len, (size_t) b, 0);
        r = MHD_pool_reallocate (pool, live[a].ptr, live[a].len, (size_t) b);
        H_OOB_CHECK ();
        if (r) { erase ((int) a); push (r, (size_t) b, 1); blkline (r, (size_t) b); }
        else { printf ("null "); st (); putchar ('\n'); }
      }
      else puts ("bad-op");
    }
    else if (l.n == 2 && !strcmp (l.w[0], "dealloc") && lp_u64 (l.w[1], &a))
    {
      if (a >= (uint64_t) nlive) { puts ("bad-op"); continue; }
      MHD_pool_deallocate (pool, live[a].ptr, live[a].len);
      H_OOB_CHECK ();
      erase ((int) a);
      printf ("ok "); st (); putchar ('\n');
    }
    else if (l.n == 4 && !strcmp (l.w[0], "reset") && lp_u64 (l.w[2], &b) && lp_u64 (l.w[3], &c))
    {
      uint8_t *r;
      if (!strcmp (l.w[1], "-"))
      {
        if (c > pool->size || ROUND_TO_ALIGN ((size_t) c) + _MHD_RED_ZONE_SIZE > pool->size) { puts ("bad-op"); continue; }
        r = MHD_pool_reset (pool, NULL, 0, (size_t) c);
      }
      else if (lp_u64 (l.w[1], &a) && a < (uint64_t) nlive)
      {
        if (b > live[a].len || b > c || c > pool->size || ROUND_TO_ALIGN ((size_t) c) + _MHD_RED_ZONE_SIZE > pool->size) { puts ("bad-op"); continue; }
        r = MHD_pool_reset (pool, live[a].ptr, (size_t) b, (size_t) c);
      }
      else { puts ("bad-op"); continue; }
      H_OOB_CHECK ();
      nlive = 0;
      push (r, (size_t) c, 1);
      blkline (r, (size_t) c);
    }
    else if (l.n == 3 && !strcmp (l.w[0], "fill") && lp_u64 (l.w[1], &a) && lp_u64 (l.w[2], &b))
    {
      if (a >= (uint64_t) nlive) { puts ("bad-op"); continue; }
      /* an out-of-arena block is reported, not written (ASan would abort:
         that abort is a result too, but the explicit line is easier to diff) */
      if ((size_t) (live[a].ptr - pool->memory) + live[a].len > pool->size
          || live[a].len > pool->size)
      { puts ("fault fill-out-of-arena"); continue; }
      for (size_t j = 0; j < live[a].len; j++)
        live[a].ptr[j] = (uint8_t) ((b * 31 + j * 7 + 1) % 256);
      puts ("ok");
    }
    else if (l.n == 2 && !strcmp (l.w[0], "read") && lp_u64 (l.w[1], &a))
    {
      if (a >= (uint64_t) nlive) { puts ("bad-op"); continue; }
      if ((size_t) (live[a].ptr - pool->memory) + live[a].len > pool->size
          || live[a].len > pool->size)
      { puts ("fault read-out-of-arena"); continue; }
      printf ("data "); lp_puthex (stdout, live[a].ptr, live[a].len); putchar ('\n');
    }
    else if (l.n == 1 && !strcmp (l.w[0], "free?"))
      printf ("free=%zu\n", MHD_pool_get_free (pool));
    else if (l.n == 3 && !strcmp (l.w[0], "inplace?") && lp_u64 (l.w[1], &a) && lp_u64 (l.w[2], &b))
    {
      if (a >= (uint64_t) nlive) { puts ("bad-op"); continue; }
      printf ("inplace=%s\n", MHD_pool_is_resizable_inplace (pool, live[a].ptr, live[a].len) ? "true" : "false");
    }
    else puts ("bad-op");
  }
  if (pool) MHD_pool_destroy (pool);
  free (l.buf);
  return 0;
}
