/* Correspondence harness for the hash functions (engine "hash", property C16).
   Real code: src/microhttpd/{md5,sha1,sha256,sha512_256}.c, or — when built with
   -DHASH_WS_H='"<repo>/src/microhttpd_ws/sha1.h"' and linked with that directory's sha1.c — the second SHA-1 copy src/microhttpd_ws/sha1.c
   (the two sha1.c define the same symbols, hence two binaries from this one file).

   Script ops (one output line each):
     init   <alg>               -> ok
     setcount <alg> <count> <hi> -> ok            (white box: ctx->count, ctx->count_bits_hi)
     update <alg> <off> <hex>   -> ok
     finish <alg>               -> digest <hex> | mismatch <k>
     spec   <alg> <hex>         -> digest <hex>      (one-shot on a fresh context)
   Every context exists in 16 replicas; replica k receives each chunk at an address that is
   (off + k) mod 16 past a 16-byte boundary, in an exact-size heap block (ASan sees over-reads,
   UBSan -fsanitize=alignment sees misaligned word access), and writes its digest to a
   destination misaligned by k.  `finish` reports a digest only if all 16 agree.
   The contexts are allocated once and re-used for every message of the script. */
#include "MHD_config.h"
#ifdef HASH_WS_H
#include HASH_WS_H   /* "<repo>/src/microhttpd_ws/sha1.h", given by the build */
#define HASH_WS 1
#else
#include "md5.h"
#include "sha256.h"
#include "sha512_256.h"
#include "sha1.h"
#endif
#include "common/lp.h"

#define NREP 16
#define MAXDG 64

typedef void (*init_fn) (void *);
typedef void (*update_fn) (void *, const uint8_t *, size_t);
typedef void (*finish_fn) (void *, uint8_t *);
typedef void (*setcount_fn) (void *, uint64_t, uint64_t);

struct alg
{
  const char *name;
  size_t ctx_size;
  size_t dg_size;
  size_t block;
  init_fn init;
  update_fn update;
  finish_fn finish;
  setcount_fn setcount;
  void *ctx[NREP];
};

#ifdef HASH_WS
static void i_sha1 (void *c) { MHD_SHA1_init (c); }
static void u_sha1 (void *c, const uint8_t *d, size_t n) { MHD_SHA1_update (c, d, n); }
static void f_sha1 (void *c, uint8_t *o) { MHD_SHA1_finish (c, o); }
static void s_sha1 (void *c, uint64_t n, uint64_t hi) { (void) hi; ((struct sha1_ctx *) c)->count = n; }
static struct alg algs[] = {
  { "wssha1", sizeof (struct sha1_ctx), SHA1_DIGEST_SIZE, SHA1_BLOCK_SIZE, i_sha1, u_sha1, f_sha1, s_sha1, {0} },
};
#else
static void i_md5 (void *c) { MHD_MD5_init (c); }
static void u_md5 (void *c, const uint8_t *d, size_t n) { MHD_MD5_update (c, d, n); }
static void f_md5 (void *c, uint8_t *o) { MHD_MD5_finish (c, o); }
static void i_sha1 (void *c) { MHD_SHA1_init (c); }
static void u_sha1 (void *c, const uint8_t *d, size_t n) { MHD_SHA1_update (c, d, n); }
static void f_sha1 (void *c, uint8_t *o) { MHD_SHA1_finish (c, o); }
static void i_sha256 (void *c) { MHD_SHA256_init (c); }
static void u_sha256 (void *c, const uint8_t *d, size_t n) { MHD_SHA256_update (c, d, n); }
static void f_sha256 (void *c, uint8_t *o) { MHD_SHA256_finish (c, o); }
static void i_sha512 (void *c) { MHD_SHA512_256_init (c); }
static void u_sha512 (void *c, const uint8_t *d, size_t n) { MHD_SHA512_256_update (c, d, n); }
static void f_sha512 (void *c, uint8_t *o) { MHD_SHA512_256_finish (c, o); }
static void s_md5 (void *c, uint64_t n, uint64_t hi) { (void) hi; ((struct Md5Ctx *) c)->count = n; }
static void s_sha1 (void *c, uint64_t n, uint64_t hi) { (void) hi; ((struct sha1_ctx *) c)->count = n; }
static void s_sha256 (void *c, uint64_t n, uint64_t hi) { (void) hi; ((struct Sha256Ctx *) c)->count = n; }
static void s_sha512 (void *c, uint64_t n, uint64_t hi)
{ ((struct Sha512_256Ctx *) c)->count = n; ((struct Sha512_256Ctx *) c)->count_bits_hi = hi; }
static struct alg algs[] = {
  { "md5", sizeof (struct Md5Ctx), MD5_DIGEST_SIZE, MD5_BLOCK_SIZE, i_md5, u_md5, f_md5, s_md5, {0} },
  { "sha1", sizeof (struct sha1_ctx), SHA1_DIGEST_SIZE, SHA1_BLOCK_SIZE, i_sha1, u_sha1, f_sha1, s_sha1, {0} },
  { "sha256", sizeof (struct Sha256Ctx), SHA256_DIGEST_SIZE, SHA256_BLOCK_SIZE, i_sha256, u_sha256, f_sha256, s_sha256, {0} },
  { "sha512_256", sizeof (struct Sha512_256Ctx), SHA512_256_DIGEST_SIZE, SHA512_256_BLOCK_SIZE, i_sha512, u_sha512, f_sha512, s_sha512, {0} },
};
#endif
#define NALG (sizeof (algs) / sizeof (algs[0]))

static struct alg *find (const char *name)
{
  for (size_t i = 0; i < NALG; i++)
    if (! strcmp (algs[i].name, name))
    {
      if (! algs[i].ctx[0])
        for (int k = 0; k < NREP; k++)
          algs[i].ctx[k] = malloc (algs[i].ctx_size);   /* contents indeterminate */
      return &algs[i];
    }
  return NULL;
}

/* exact-size block whose payload starts `mis` bytes past a 16-byte boundary */
static uint8_t *place (const uint8_t *data, size_t len, unsigned mis, void **base)
{
  void *p = NULL;
  if (0 != posix_memalign (&p, 16, mis + len + (0 == mis + len ? 1 : 0))) abort ();
  *base = p;
  if (len) memcpy ((uint8_t *) p + mis, data, len);
  return (uint8_t *) p + mis;
}

int main (void)
{
  struct lp_line l = {0};
  setvbuf (stdout, NULL, _IOLBF, 0);   /* a sanitizer abort must not lose the lines already produced */
  while (lp_read (stdin, &l))
  {
    struct alg *a = (l.n >= 2) ? find (l.w[1]) : NULL;
    uint64_t off;
    if (! a) { puts ("bad-op"); continue; }
    if (l.n == 2 && ! strcmp (l.w[0], "init"))
    {
      for (int k = 0; k < NREP; k++) a->init (a->ctx[k]);
      puts ("ok");
    }
    else if (l.n == 4 && ! strcmp (l.w[0], "setcount"))
    {
      /* white box: pretend that `count` bytes (a multiple of the block size, all of whose
         blocks left H unchanged) have been hashed already — the only way to reach the
         byte-counter wrap-arounds.  For sha512_256: count < 2^61, hi = count_bits_hi */
      uint64_t n, hi;
      if (! lp_u64 (l.w[2], &n) || ! lp_u64 (l.w[3], &hi) || 0 != n % a->block) { puts ("bad-op"); continue; }
      for (int k = 0; k < NREP; k++) a->setcount (a->ctx[k], n, hi);
      puts ("ok");
    }
    else if (l.n == 4 && ! strcmp (l.w[0], "update") && lp_u64 (l.w[2], &off))
    {
      size_t len;
      uint8_t *d = lp_unhex (l.w[3], &len);
      if (! d) { puts ("bad-op"); continue; }
      for (int k = 0; k < NREP; k++)
      {
        void *base;
        uint8_t *p = place (d, len, (unsigned) ((off + (uint64_t) k) % 16), &base);
        a->update (a->ctx[k], p, len);
        free (base);
      }
      free (d);
      puts ("ok");
    }
    else if (l.n == 2 && ! strcmp (l.w[0], "finish"))
    {
      uint8_t ref[MAXDG];
      int bad = -1;
      for (int k = 0; k < NREP; k++)
      {
        void *base = NULL;
        uint8_t *o;
        if (0 != posix_memalign (&base, 16, (size_t) k + a->dg_size)) abort ();
        o = (uint8_t *) base + k;
        a->finish (a->ctx[k], o);
        if (0 == k) memcpy (ref, o, a->dg_size);
        else if (memcmp (ref, o, a->dg_size) && bad < 0) bad = k;
        free (base);
      }
      if (bad >= 0) printf ("mismatch %d\n", bad);
      else { printf ("digest "); lp_puthex (stdout, ref, a->dg_size); putchar ('\n'); }
    }
    else if (l.n == 3 && ! strcmp (l.w[0], "spec"))
    {
      size_t len;
      uint8_t dg[MAXDG];
      uint8_t *d = lp_unhex (l.w[2], &len);
      void *c;
      if (! d) { puts ("bad-op"); continue; }
      c = malloc (a->ctx_size);
      a->init (c);
      a->update (c, d, len);
      a->finish (c, dg);
      free (c);
      free (d);
      printf ("digest "); lp_puthex (stdout, dg, a->dg_size); putchar ('\n');
    }
    else puts ("bad-op");
  }
  free (l.buf);
  for (size_t i = 0; i < NALG; i++)
    for (int k = 0; k < NREP; k++) free (algs[i].ctx[k]);
  return 0;
}
